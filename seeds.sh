#!/bin/sh
# robustness: every quick check under several seeds on the unchanged tree (must all be rc=0)
cd "$(dirname "$0")"
mkdir -p .work
for s in "$@"; do
  echo "== seed $s"
  VERIF_SEED=$s ./run_all.sh quick
done
