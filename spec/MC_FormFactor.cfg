SPECIFICATION Spec
INVARIANT Emit
CHECK_DEADLOCK FALSE
