------------------------------ MODULE Symmetry ------------------------------
(* xfab.symmetry: lattice permutations, the corresponding rotations and the  *)
(* misorientation function Umis.                                             *)
(* XfabSymmetry (generated from the tree under test) defines                 *)
(*   Perms : sequence over crystal systems 1..7 of sequences of 3x3 integer  *)
(*           matrices (permutations(cs)).                                    *)
(* Exact arithmetic: integers for systems 1-4 and 7; Z[sqrt3] pairs <<a,b>>  *)
(* = a + b*sqrt3 for the trigonal/hexagonal systems, where                   *)
(*   rot = B perm^-1 B^-1,  B = B(1,1,1,90,90,120) ~ [[2,1,0],[0,s,0],[0,0,s]] *)
(* (s = sqrt3; a common factor of B cancels), so 6*rot has entries in Z[s].  *)
EXTENDS IntAlg, TLC, Json, XfabSymmetry, SymCases    \* SymCases: Pairs = set of <<p1,q1,p2,q2>> Cayley parameters

Order(cs) == CASE cs = 1 -> 1 [] cs = 2 -> 2 [] cs = 3 -> 4 [] cs = 4 -> 8 [] cs = 5 -> 6 [] cs = 6 -> 12 [] cs = 7 -> 24
NPerm(cs) == Len(Perms[cs])
PermSet(cs) == {Perms[cs][i] : i \in 1..NPerm(cs)}
Hexagonal(cs) == cs \in {5, 6}

(* ---- Z[sqrt3] ---- *)
ZAdd(x, y) == <<x[1] + y[1], x[2] + y[2]>>
ZMul(x, y) == <<x[1]*y[1] + 3*x[2]*y[2], x[1]*y[2] + x[2]*y[1]>>
ZInt(n) == <<n, 0>>
ZDot(u, v) == ZAdd(ZMul(u[1], v[1]), ZAdd(ZMul(u[2], v[2]), ZMul(u[3], v[3])))
ZCol(M, j) == <<M[1][j], M[2][j], M[3][j]>>
ZMatMul(A, B) == [i \in 1..3 |-> [j \in 1..3 |-> ZDot(A[i], ZCol(B, j))]]
ZTranspose(M) == <<ZCol(M, 1), ZCol(M, 2), ZCol(M, 3)>>
ZOfInt(M) == [i \in 1..3 |-> [j \in 1..3 |-> ZInt(M[i][j])]]
ZScaleI(k) == [i \in 1..3 |-> [j \in 1..3 |-> IF i = j THEN ZInt(k) ELSE ZInt(0)]]
S3 == <<0, 1>>
Bhex  == << <<ZInt(2), ZInt(1), ZInt(0)>>, <<ZInt(0), S3, ZInt(0)>>, <<ZInt(0), ZInt(0), S3>> >>
(* 2*s*Bhex^-1 *)
BhexI == << <<S3, ZInt(-1), ZInt(0)>>, <<ZInt(0), ZInt(2), ZInt(0)>>, <<ZInt(0), ZInt(0), ZInt(2)>> >>
(* 6*rot = (Bhex . M . BhexI) * s / 1  since 1/(2s) = s/6 *)
Rot6Hex(P) == LET M == MatScale(Det(P), Adj(P))        \* P^-1 for unimodular P
                  X == ZMatMul(Bhex, ZMatMul(ZOfInt(M), BhexI)) IN
              [i \in 1..3 |-> [j \in 1..3 |-> ZMul(S3, X[i][j])]]
(* the rotation paired with permutation i, times 6, in Z[s] (as the code defines it) *)
Rot6(cs, i) == IF Hexagonal(cs) THEN Rot6Hex(Perms[cs][i])
               ELSE ZOfInt(MatScale(6, Transpose(Perms[cs][i])))

(* basis of the linear space of B matrices of cells conforming to the crystal system *)
E(i, j) == [r \in 1..3 |-> [c \in 1..3 |-> IF r = i /\ c = j THEN ZInt(1) ELSE ZInt(0)]]
ZMAdd(A, B) == [r \in 1..3 |-> [c \in 1..3 |-> ZAdd(A[r][c], B[r][c])]]
BBasis(cs) ==
  CASE cs = 1 -> {E(1,1), E(1,2), E(1,3), E(2,2), E(2,3), E(3,3)}
    [] cs = 2 -> {E(1,1), E(2,2), E(1,3), E(3,3)}                 \* unique axis b
    [] cs = 3 -> {E(1,1), E(2,2), E(3,3)}
    [] cs = 4 -> {ZMAdd(E(1,1), E(2,2)), E(3,3)}
    [] cs \in {5, 6} -> { << <<ZInt(2), ZInt(1), ZInt(0)>>, <<ZInt(0), S3, ZInt(0)>>, <<ZInt(0), ZInt(0), ZInt(0)>> >>, E(3,3) }
    [] cs = 7 -> {ZMAdd(E(1,1), ZMAdd(E(2,2), E(3,3)))}

(* ---- requirement on the tables ---- *)
PermLaws(cs) ==
  [ count     |-> NPerm(cs) = Order(cs),
    unimodular|-> \A P \in PermSet(cs) : Abs(Det(P)) = 1,
    nodup     |-> Cardinality(PermSet(cs)) = NPerm(cs),
    identity  |-> I3 \in PermSet(cs),
    closed    |-> \A P \in PermSet(cs) : \A Q \in PermSet(cs) : MatMul(P, Q) \in PermSet(cs),
    inverses  |-> \A P \in PermSet(cs) : \E Q \in PermSet(cs) : MatMul(P, Q) = I3,
    (* rotations: orthogonal, determinant +1 (6R . 6R' = 36 I ; det checked through R e1 x R e2 = R e3) *)
    orthogonal|-> \A i \in 1..NPerm(cs) : ZMatMul(Rot6(cs, i), ZTranspose(Rot6(cs, i))) = ZScaleI(36),
    proper    |-> \A i \in 1..NPerm(cs) :
                    LET R == Rot6(cs, i)
                    IN  \* row1 x row2 = row3 ; with everything scaled by 6 the cross product scales by 36
                        /\ ZAdd(ZMul(R[1][2], R[2][3]), ZMul(ZInt(-1), ZMul(R[1][3], R[2][2]))) = ZMul(ZInt(6), R[3][1])
                        /\ ZAdd(ZMul(R[1][3], R[2][1]), ZMul(ZInt(-1), ZMul(R[1][1], R[2][3]))) = ZMul(ZInt(6), R[3][2])
                        /\ ZAdd(ZMul(R[1][1], R[2][2]), ZMul(ZInt(-1), ZMul(R[1][2], R[2][1]))) = ZMul(ZInt(6), R[3][3]),
    (* the rotations form a group too: closure and inverses (what makes Umis' multiset invariant) *)
    rotclosed |-> LET RS == {Rot6(cs, i) : i \in 1..NPerm(cs)} IN
                    \A A \in RS : \A B \in RS :
                       \E C \in RS : ZMatMul(A, B) = [i \in 1..3 |-> [j \in 1..3 |-> ZMul(ZInt(6), C[i][j])]],
    rotinverse|-> LET RS == {Rot6(cs, i) : i \in 1..NPerm(cs)} IN \A A \in RS : ZTranspose(A) \in RS,
    (* pairing rot[i].B.perm[i] = B on a basis of the conforming B matrices (scaled to Z[s]) *)
    pairing   |-> \A i \in 1..NPerm(cs) : \A B \in BBasis(cs) :
                    ZMatMul(Rot6(cs, i), ZMatMul(B, ZOfInt(Perms[cs][i]))) =
                       [r \in 1..3 |-> [c \in 1..3 |-> ZMul(ZInt(6), B[r][c])]] ]

LawNames == {"count","unimodular","nodup","identity","closed","inverses","orthogonal","proper","rotclosed","rotinverse","pairing"}
FailedLaws(cs) == LET l == PermLaws(cs) IN {nm \in LawNames : ~l[nm]}

(* ---- Umis on Cayley rotations ---- *)
Cayley(p, q) ==      \* numerator matrix N and denominator D of the rotation with Rodrigues vector p/q
  LET pp == Dot(p, p)  D == q*q + pp
      K == << <<0, -p[3], p[2]>>, <<p[3], 0, -p[1]>>, <<-p[2], p[1], 0>> >> IN
  [N |-> [i \in 1..3 |-> [j \in 1..3 |-> (IF i = j THEN q*q - pp ELSE 0) + 2*p[i]*p[j] + 2*q*K[i][j]]], D |-> D]
(* cos of the misorientation for operation k: (tr(U1' U2 R_k') - 1)/2 = (num_a + num_b sqrt3) / den *)
CosMis(cs, k, c1, c2) ==
  LET M == MatMul(Transpose(c1.N), c2.N)                         \* D1 D2 U1'U2
      R == Rot6(cs, k)
      tr == ZAdd(ZAdd(ZDot(ZOfInt(M)[1], R[1]), ZDot(ZOfInt(M)[2], R[2])), ZDot(ZOfInt(M)[3], R[3]))   \* 6 D1 D2 tr(M R')
      den == 12 * c1.D * c2.D
  IN <<tr[1] - 6 * c1.D * c2.D, tr[2], den>>

VARIABLES cs, pair, phase
vars == <<cs, pair, phase>>
Init == cs \in 1..7 /\ phase = "start" /\ (pair \in Pairs \/ pair = <<>>)
Next == phase = "start" /\ phase' = "done" /\ UNCHANGED <<cs, pair>>
Spec == Init /\ [][Next]_vars

Emit == phase = "done" =>
  PrintT("@@" \o ToJson(
    IF pair = <<>>
      THEN [kind |-> "tables", cs |-> cs, failed |-> FailedLaws(cs),
            rot6 |-> [i \in 1..NPerm(cs) |-> Rot6(cs, i)]]
      ELSE LET c1 == Cayley(pair[1], pair[2])  c2 == Cayley(pair[3], pair[4]) IN
           [kind |-> "umis", cs |-> cs, pair |-> pair, N1 |-> c1.N, D1 |-> c1.D, N2 |-> c2.N, D2 |-> c2.D,
            cos |-> [k \in 1..NPerm(cs) |-> CosMis(cs, k, c1, c2)]]))
(* Cayley transforms are proper rotations: N'N = D^2 I, det N = D^3 *)
CayleyProper == (pair # <<>>) =>
   LET c == Cayley(pair[1], pair[2]) IN
     MatMul(Transpose(c.N), c.N) = MatScale(c.D * c.D, I3) /\ Det(c.N) = c.D * c.D * c.D
=============================================================================
