------------------------------ MODULE Rotation ------------------------------
(* Rotation constructors of xfab as exact rational matrices.                 *)
(* An angle is a Pythagorean triple <<c,s,d>>, c*c + s*s = d*d, meaning      *)
(* cos = c/d, sin = s/d; elementary rotations have integer numerators over   *)
(* the denominator d and products multiply numerators and denominators.      *)
(* The specification DEFINES each builder as the documented composition:     *)
(*   euler   = Rz(phi1) Rx(PHI) Rz(phi2)         (Bunge)                     *)
(*   omega   = Rz(omega)                                                     *)
(*   general = Rx(chi) Ry(wedge) Rz(omega)                                   *)
(*   quart   = P Rz(omega) P',  P = Rx(wx) Ry(wy)                            *)
(*   tilt    = Rx(tx) Ry(ty) Rz(tz)                                          *)
(*   rod     = transpose of the Cayley transform of the Rodrigues vector     *)
(* RotCases (generated): Cases = set of [kind, a] with a = sequence of       *)
(* angles, or [kind |-> "rod", p, q]; GimbalClasses for the near-gimbal band.*)
EXTENDS IntAlg, TLC, Json, RotCases

Rx(a) == << <<a[3], 0, 0>>, <<0, a[1], -a[2]>>, <<0, a[2], a[1]>> >>
Ry(a) == << <<a[1], 0, a[2]>>, <<0, a[3], 0>>, <<-a[2], 0, a[1]>> >>
Rz(a) == << <<a[1], -a[2], 0>>, <<a[2], a[1], 0>>, <<0, 0, a[3]>> >>
Mul3(A, B, C) == MatMul(A, MatMul(B, C))

CayleyN(p, q) == LET pp == Dot(p, p)
                     K == << <<0, -p[3], p[2]>>, <<p[3], 0, -p[1]>>, <<-p[2], p[1], 0>> >> IN
                 [i \in 1..3 |-> [j \in 1..3 |-> (IF i = j THEN q*q - pp ELSE 0) + 2*p[i]*p[j] + 2*q*K[i][j]]]

(* numerator and denominator of the builder's result *)
Build(cs) ==
  CASE cs.kind = "euler"   -> [N |-> Mul3(Rz(cs.a[1]), Rx(cs.a[2]), Rz(cs.a[3])), den |-> cs.a[1][3]*cs.a[2][3]*cs.a[3][3]]
    [] cs.kind = "omega"   -> [N |-> Rz(cs.a[1]), den |-> cs.a[1][3]]
    [] cs.kind = "general" -> [N |-> Mul3(Rx(cs.a[2]), Ry(cs.a[3]), Rz(cs.a[1])), den |-> cs.a[1][3]*cs.a[2][3]*cs.a[3][3]]   \* a = <<omega, chi, wedge>>
    [] cs.kind = "quart"   -> LET Pm == MatMul(Rx(cs.a[2]), Ry(cs.a[3])) IN                                                   \* a = <<omega, wx, wy>>
                              [N |-> Mul3(Pm, Rz(cs.a[1]), Transpose(Pm)),
                               den |-> cs.a[1][3]*cs.a[2][3]*cs.a[3][3]*cs.a[2][3]*cs.a[3][3]]
    [] cs.kind = "tilt"    -> [N |-> Mul3(Rx(cs.a[1]), Ry(cs.a[2]), Rz(cs.a[3])), den |-> cs.a[1][3]*cs.a[2][3]*cs.a[3][3]]
    [] cs.kind = "rod"     -> [N |-> Transpose(CayleyN(cs.p, cs.q)), den |-> cs.q*cs.q + Dot(cs.p, cs.p)]

VARIABLES cs, stage
vars == <<cs, stage>>
Init == cs \in Cases /\ stage = "args"
(* one step: the builder is applied *)
Construct == stage = "args" /\ stage' = "built" /\ UNCHANGED cs
Next == Construct
Spec == Init /\ [][Next]_vars

AnglesOK == cs.kind # "rod" => \A i \in 1..Len(cs.a) : cs.a[i][1]*cs.a[i][1] + cs.a[i][2]*cs.a[i][2] = cs.a[i][3]*cs.a[i][3] /\ cs.a[i][3] > 0
(* every builder returns a proper rotation: N'N = den^2 I and det N = den^3 (guarded against 32-bit overflow) *)
Small == Build(cs).den <= 26000
Orthonormal == (stage = "built" /\ Small) =>
     LET b == Build(cs) IN MatMul(Transpose(b.N), b.N) = MatScale(b.den * b.den, I3)
Proper == (stage = "built" /\ Build(cs).den <= 1200) =>
     LET b == Build(cs) IN Det(b.N) = b.den * b.den * b.den
(* gimbal: PHI = 0 or pi makes the Euler matrix a pure rotation about z by phi1 + phi2 resp. phi1 - phi2 *)
GimbalIsRz == (stage = "built" /\ cs.kind = "euler" /\ cs.a[2][2] = 0) =>
     LET b == Build(cs) IN b.N[3][1] = 0 /\ b.N[3][2] = 0 /\ b.N[1][3] = 0 /\ b.N[2][3] = 0

Emit == stage = "built" => PrintT("@@" \o ToJson([cs |-> cs, N |-> Build(cs).N, den |-> Build(cs).den]))
=============================================================================
