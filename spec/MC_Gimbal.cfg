SPECIFICATION Spec
CONSTANTS PhiDecs = {3, 5, 9}
          PHIDecs = {1, 2, 3, 4, 5, 6, 7, 8, 9, 10, 11, 12, 13}
INVARIANT Emit
CHECK_DEADLOCK FALSE
