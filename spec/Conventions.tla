----------------------------- MODULE Conventions -----------------------------
(* xfab.tools and xfab.laue are the same API under two conventions: tools      *)
(* carries a factor 2*pi on reciprocal-space quantities, laue does not.         *)
(* Every representation has a 2pi-WEIGHT w: the tools value is (2pi)^w times    *)
(* the laue value.  The refinement mapping between the modules is               *)
(*     tools.f(x) = (2pi)^w(out) * laue.f( x / (2pi)^w(in) ).                   *)
(* Part 1 declares the weight signature of the 41 shared functions.             *)
(* Part 2 is a unit analysis: the body of every function that touches 2*pi is   *)
(* written as a pipeline of steps with weight arithmetic (product adds, inverse *)
(* negates, *2pi adds one, /2pi subtracts one, a call demands the callee's      *)
(* declared weights) and TLC checks each pipeline delivers its declared weight. *)
EXTENDS Integers, Sequences, FiniteSets, TLC, Json

Weight(kind) == IF kind \in {"B", "gvec", "UB"} THEN 1 ELSE 0
Kinds == {"B", "gvec", "UB", "cell", "A", "Ainv", "U", "ubi", "eps", "angle", "scalar", "hkl", "rows", "rod", "syscond", "text", "int"}

(* name -> [in, out] *)
Sig == [
  arctan2 |-> [in |-> <<"scalar","scalar">>, out |-> <<"angle">>],
  a_to_cell |-> [in |-> <<"A">>, out |-> <<"cell">>],
  b_to_cell |-> [in |-> <<"B">>, out |-> <<"cell">>],
  b_to_epsilon |-> [in |-> <<"B","cell">>, out |-> <<"eps">>],
  b_to_epsilon_old |-> [in |-> <<"B","cell">>, out |-> <<"eps">>],
  cell_invert |-> [in |-> <<"cell">>, out |-> <<"cell">>],
  cell_volume |-> [in |-> <<"cell">>, out |-> <<"scalar">>],
  detect_tilt |-> [in |-> <<"angle","angle","angle">>, out |-> <<"U">>],
  epsilon_to_b |-> [in |-> <<"eps","cell">>, out |-> <<"B">>],
  epsilon_to_b_old |-> [in |-> <<"eps","cell">>, out |-> <<"B">>],
  euler_to_u |-> [in |-> <<"angle","angle","angle">>, out |-> <<"U">>],
  find_omega |-> [in |-> <<"gvec","angle">>, out |-> <<"angle">>],
  find_omega_general |-> [in |-> <<"gvec","angle","angle","angle">>, out |-> <<"angle","angle">>],
  find_omega_quart |-> [in |-> <<"gvec","angle","angle","angle">>, out |-> <<"angle","angle">>],
  find_omega_wedge |-> [in |-> <<"gvec","angle","angle">>, out |-> <<"angle","angle">>],
  form_a_mat |-> [in |-> <<"cell">>, out |-> <<"A">>],
  form_a_mat_inv |-> [in |-> <<"cell">>, out |-> <<"Ainv">>],
  form_b_mat |-> [in |-> <<"cell">>, out |-> <<"B">>],
  form_omega_mat |-> [in |-> <<"angle">>, out |-> <<"U">>],
  form_omega_mat_general |-> [in |-> <<"angle","angle","angle">>, out |-> <<"U">>],
  genhkl |-> [in |-> <<"cell","syscond","scalar","scalar","text">>, out |-> <<"rows">>],
  genhkl_all |-> [in |-> <<"cell","scalar","scalar","text">>, out |-> <<"rows">>],
  genhkl_base |-> [in |-> <<"cell","syscond","scalar","scalar","text","text","text">>, out |-> <<"rows">>],
  genhkl_unique |-> [in |-> <<"cell","scalar","scalar","text">>, out |-> <<"rows">>],
  quart_to_omega |-> [in |-> <<"angle","angle","angle">>, out |-> <<"U">>],
  reduce_cell |-> [in |-> <<"cell">>, out |-> <<"cell">>],
  rod_to_u |-> [in |-> <<"rod">>, out |-> <<"U">>],
  sintl |-> [in |-> <<"cell","hkl">>, out |-> <<"scalar">>],
  sysabs |-> [in |-> <<"hkl","syscond","text","text">>, out |-> <<"int">>],
  sysabs_unique |-> [in |-> <<"hkl","syscond">>, out |-> <<"int">>],
  tth |-> [in |-> <<"cell","hkl","scalar">>, out |-> <<"angle">>],
  tth2 |-> [in |-> <<"gvec","scalar">>, out |-> <<"angle">>],
  u_to_euler |-> [in |-> <<"U">>, out |-> <<"angle","angle","angle">>],
  u_to_rod |-> [in |-> <<"U">>, out |-> <<"rod">>],
  u_to_ubi |-> [in |-> <<"U","cell">>, out |-> <<"ubi">>],
  ub_to_u_b |-> [in |-> <<"UB">>, out |-> <<"U","B">>],
  ubi_to_cell |-> [in |-> <<"ubi">>, out |-> <<"cell">>],
  ubi_to_rod |-> [in |-> <<"ubi">>, out |-> <<"rod">>],
  ubi_to_u |-> [in |-> <<"ubi">>, out |-> <<"U">>],
  ubi_to_u_and_eps |-> [in |-> <<"ubi","cell">>, out |-> <<"U","eps">>],
  ubi_to_u_b |-> [in |-> <<"ubi">>, out |-> <<"U","B">>] ]
Functions == DOMAIN Sig

(* ---- Part 2: pipelines.  A step is                                               *)
(*   [op |-> "arg", k]            push the weight of input k                         *)
(*   [op |-> "call", f, n]        pop n weights, they must equal f's declared input  *)
(*                                weights in module M; push f's FIRST output weight   *)
(*   [op |-> "mul"] / "inv" / "x2pi" / "d2pi" / "transpose"   weight arithmetic      *)
(*   [op |-> "ret", k]            the top of the stack must equal output k's weight   *)
(* In laue every weight is 0 and x2pi/d2pi do not occur.                              *)
S(op) == [op |-> op, f |-> "", n |-> 0]
Arg(k) == [op |-> "arg", f |-> "", n |-> k]
Call(f, n) == [op |-> "call", f |-> f, n |-> n]
Ret(k) == [op |-> "ret", f |-> "", n |-> k]

Pipelines == [
  form_b_mat |-> [tools |-> << Arg(1), Call("cell_invert", 1), S("x2pi"), Ret(1) >>,       \* astar = 2 pi b c sin(alpha)/V ...
                  laue  |-> << Arg(1), Call("cell_invert", 1), Ret(1) >> ],
  b_to_cell  |-> [tools |-> << Arg(1), S("d2pi"), Call("recip_metric_to_cell", 1), Ret(1) >>,
                  laue  |-> << Arg(1), Call("recip_metric_to_cell", 1), Ret(1) >> ],
  u_to_ubi   |-> [tools |-> << Arg(1), Arg(2), Call("form_b_mat", 1), S("mul"), S("inv"), S("x2pi"), Ret(1) >>,
                  laue  |-> << Arg(1), Arg(2), Call("form_b_mat", 1), S("mul"), S("inv"), Ret(1) >> ],
  ubi_to_u   |-> [tools |-> << Arg(1), Call("ubi_to_cell", 1), Call("form_b_mat", 1), Arg(1), S("mul"), S("transpose"), S("d2pi"), Ret(1) >>,
                  laue  |-> << Arg(1), Call("ubi_to_cell", 1), Call("form_b_mat", 1), Arg(1), S("mul"), S("transpose"), Ret(1) >> ],
  ubi_to_u_b |-> [tools |-> << Arg(1), S("inv"), S("x2pi"), Call("ub_to_u_b", 1), Ret(1) >>,
                  laue  |-> << Arg(1), S("inv"), Call("ub_to_u_b", 1), Ret(1) >> ],
  tth2       |-> [tools |-> << Arg(1), S("norm"), S("d2pi"), Call("asin_length", 1), Ret(1) >>,      \* length*lambda/(4 pi)
                  laue  |-> << Arg(1), S("norm"), Call("asin_length", 1), Ret(1) >> ],
  (* strain from a UBI: B := inv(ubi.U) is handed to b_to_epsilon, which compares it with form_b_mat(cell) *)
  ubi_to_u_and_eps |-> [tools |-> << Arg(1), Arg(1), Call("ubi_to_u", 1), S("mul"), S("inv"), Arg(2), Call("b_to_epsilon", 2), Ret(2) >>,
                        laue  |-> << Arg(1), Arg(1), Call("ubi_to_u", 1), S("mul"), S("inv"), Arg(2), Call("b_to_epsilon", 2), Ret(2) >> ] ]

(* helper "functions" of the pipelines *)
HelperIn(f) == CASE f = "recip_metric_to_cell" -> <<0>> [] f = "asin_length" -> <<0>> [] OTHER -> <<>>
InW(M, f) == IF f \in {"recip_metric_to_cell", "asin_length"} THEN HelperIn(f)
             ELSE [i \in 1..Len(Sig[f].in) |-> IF M = "tools" THEN Weight(Sig[f].in[i]) ELSE 0]
OutW(M, f, k) == IF f \in {"recip_metric_to_cell", "asin_length"} THEN 0
                 ELSE IF M = "tools" THEN Weight(Sig[f].out[k]) ELSE 0

(* ---- the weight machine ---- *)
VARIABLES M, f, pcn, stack, ok
vars == <<M, f, pcn, stack, ok>>
Prog == Pipelines[f][M]
Init == M \in {"tools", "laue"} /\ f \in DOMAIN Pipelines /\ pcn = 1 /\ stack = <<>> /\ ok = TRUE
Top == stack[Len(stack)]
Pop(n) == SubSeq(stack, 1, Len(stack) - n)
LastN(n) == SubSeq(stack, Len(stack) - n + 1, Len(stack))
Step ==
  /\ pcn <= Len(Prog)
  /\ LET s == Prog[pcn] IN
     CASE s.op = "arg"  -> stack' = Append(stack, IF M = "tools" THEN Weight(Sig[f].in[s.n]) ELSE 0) /\ ok' = ok
       [] s.op = "call" -> /\ ok' = (ok /\ LastN(s.n) = InW(M, s.f))
                           /\ stack' = Append(Pop(s.n), OutW(M, s.f, 1))
       [] s.op = "mul"  -> stack' = Append(Pop(2), stack[Len(stack)-1] + Top) /\ ok' = ok
       [] s.op = "inv"  -> stack' = Append(Pop(1), -Top) /\ ok' = ok
       [] s.op = "x2pi" -> stack' = Append(Pop(1), Top + 1) /\ ok' = ok
       [] s.op = "d2pi" -> stack' = Append(Pop(1), Top - 1) /\ ok' = ok
       [] s.op \in {"transpose", "norm"} -> stack' = stack /\ ok' = ok
       [] s.op = "ret"  -> stack' = stack /\ ok' = (ok /\ Top = OutW(M, f, s.n))
  /\ pcn' = pcn + 1 /\ UNCHANGED <<M, f>>
Next == Step
Spec == Init /\ [][Next]_vars

Done == pcn = Len(Prog) + 1
Consistent == ok
(* In tools, -w(B) for inv(ubi.U) gives weight 0 where b_to_epsilon demands 1: the known finding *)
Emit == Done => PrintT("@@" \o ToJson([module |-> M, function |-> f, consistent |-> ok, final |-> stack]))
EmitSig == (pcn = 1 /\ M = "tools" /\ f = "tth2") =>
     PrintT("@@" \o ToJson([sig |-> [g \in Functions |-> [inw |-> [i \in 1..Len(Sig[g].in) |-> Weight(Sig[g].in[i])],
                                                          outw |-> [i \in 1..Len(Sig[g].out) |-> Weight(Sig[g].out[i])],
                                                          ink |-> Sig[g].in, outk |-> Sig[g].out]]]))
=============================================================================
