SPECIFICATION Spec
CONSTANTS NameSeq <- RichNames
          Toks <- RichToks
          Depth = 25
          ForcedTail <- TailSim
INVARIANT Emit
INVARIANT TypeOK
INVARIANT RoundTrip
INVARIANT VariedFollows
INVARIANT StepsFollow
INVARIANT StepsizesDomain
CHECK_DEADLOCK FALSE
