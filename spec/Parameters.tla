----------------------------- MODULE Parameters -----------------------------
(* xfab.parameters.parameters: a named parameter set with vary lists,        *)
(* synchronisation with another object and a text file format.               *)
(*                                                                           *)
(* Values are tokens [k |-> kind, x |-> id]; the harness maps (kind,id) to a *)
(* concrete Python value.  Kinds:                                            *)
(*   int, float          numbers                                             *)
(*   str_plain           blank-free non-numeric text          "ab"           *)
(*   str_empty           ""                                                  *)
(*   str_int  (x)        text of the int with id x            "12"           *)
(*   str_float(x)        text of the float with id x          "1.5"          *)
(*   str_padint(x)       str_int with blanks around it        " 12 "         *)
(*   str_padded(x)       str_plain x with blanks around it    " ab "         *)
(*   str_inner           non-numeric text with an inner blank "a b"          *)
(* dumbtypecheck (run by set_parameters and loadparameters over ALL entries) *)
(* coerces: numeric-looking text -> int if it parses as int, else float;     *)
(* other text is stripped.                                                   *)
EXTENDS Integers, Sequences, FiniteSets, TLC, Json

CONSTANTS NameSeq,      \* the names in use, in Python string sort order (sequence of strings)
          Toks,         \* the value tokens in use
          Depth,        \* number of API events per emitted behaviour
          ForcedTail    \* sequence of event names that end every behaviour (e.g. <<"save","load_fresh">>): makes
                        \* every explored prefix go through the file round trip, and gives simulation runs a single
                        \* final successor (TLC evaluates the emitting invariant on every successor)

Names == {NameSeq[i] : i \in 1..Len(NameSeq)}
TokSet == {Toks[i] : i \in 1..Len(Toks)}
None == [k |-> "none", x |-> 0]

Coerce(t) == CASE t.k \in {"str_int", "str_padint"} -> [k |-> "int", x |-> t.x]
               [] t.k = "str_float" -> [k |-> "float", x |-> t.x]
               [] t.k = "str_padded" -> [k |-> "str_plain", x |-> t.x]
               [] OTHER -> t
(* a saved line "name text" is read back only if it splits into exactly two fields *)
Readable(t) == t.k \in {"int", "float", "str_plain", "str_empty", "str_int", "str_float", "none"}
(* what loading the text written for t yields: the raw text (plus newline) through Coerce *)
Loaded(t) == CASE t.k = "int" -> t [] t.k = "float" -> t
               [] t.k = "none" -> [k |-> "str_plain", x |-> 99]       \* the text "None"
               [] OTHER -> Coerce(t)
(* hyphens in names become underscores on load *)
UMap == ("b-c" :> "b_c") @@ ("k-1" :> "k_1")
Underscore(n) == IF n \in DOMAIN UMap THEN UMap[n] ELSE n

VARIABLES pars,           \* function: DOMAIN = names present -> token
          varylist, variable_list,   \* sequences of names
          stepsizes,      \* function: names -> token
          file,           \* sequence of <<name, token>> lines, or <<"nofile">>
          other,          \* the other object's attributes: function names -> token
          ret,            \* what the last call returned / raised
          hist,
          other0,         \* the other object's attributes at the start (never changes)
          kind            \* "none", or the kind of API call chosen for the next step (two-phase steps make TLC's simulation mode,
                          \* which picks uniformly among successor STATES, pick uniformly among the 13 KINDS of call first - otherwise
                          \* save/load/update_* (one successor each) would almost never be simulated next to addpar (hundreds))
vars == <<pars, varylist, variable_list, stepsizes, file, other, ret, hist, other0, kind>>

Put(f, n, v) == [m \in DOMAIN f \cup {n} |-> IF m = n THEN v ELSE f[m]]
Has(s, n) == \E i \in 1..Len(s) : s[i] = n
TypeCheck(f) == [n \in DOMAIN f |-> Coerce(f[n])]
R(tag, val) == [tag |-> tag, val |-> val]
(* every event is logged with the projected state AFTER it: this is what the replay compares call by call *)
Log(e) == hist' = Append(hist, [e |-> e, post |-> [pars |-> pars', varylist |-> varylist', variable_list |-> variable_list',
                                                   stepsizes |-> stepsizes', other |-> other', ret |-> ret']])

Init == /\ pars = <<>> /\ varylist = <<>> /\ variable_list = <<>> /\ stepsizes = <<>>
        /\ file = [exists |-> FALSE, lines |-> <<>>] /\ ret = R("none", 0) /\ hist = <<>>
        /\ other \in {<<>>} \cup {[n \in S |-> Toks[1]] : S \in {{NameSeq[1]}, Names}}
        /\ other0 = other /\ kind = "none"

AddParAs(evname, n, v, vary, cv, st) ==
  /\ pars' = Put(pars, n, v)
  /\ varylist' = IF vary /\ ~Has(varylist, n) THEN Append(varylist, n) ELSE varylist
  /\ variable_list' = IF cv /\ ~Has(variable_list, n) THEN Append(variable_list, n) ELSE variable_list
  /\ stepsizes' = IF cv /\ ~Has(variable_list, n) THEN Put(stepsizes, n, st) ELSE stepsizes
  /\ ret' = R("ok", 0) /\ UNCHANGED <<file, other>>
  /\ Log([ev |-> evname, n |-> n, v |-> v, vary |-> vary, cv |-> cv, st |-> st])
AddPar(n, v, vary, cv, st) == AddParAs("addpar", n, v, vary, cv, st)
(* the par object travels as a string list (tostringlist / fromstringlist, "to send to Java") before it is added: same effect *)
AddParSL(n, v, vary, cv, st) == AddParAs("addpar_sl", n, v, vary, cv, st)

(* the constructor with keyword arguments d: a new object holding d, nothing varied.  Whether the constructor should coerce
   numeric-looking text (as set_parameters does) is not something the documented behaviour settles, so the event is only
   taken with values that coercion leaves alone: both readings then agree *)
Construct(d) == /\ TypeCheck(d) = d
                /\ pars' = d /\ varylist' = <<>> /\ variable_list' = <<>> /\ stepsizes' = <<>>
                /\ ret' = R("ok", 0) /\ UNCHANGED <<file, other>>
                /\ Log([ev |-> "construct", d |-> d])

Set(n, v) == /\ pars' = Put(pars, n, v) /\ ret' = R("ok", 0)
             /\ UNCHANGED <<varylist, variable_list, stepsizes, file, other>>
             /\ Log([ev |-> "set", n |-> n, v |-> v])

(* update, then dumbtypecheck over every entry *)
SetParameters(d) == /\ pars' = TypeCheck([n \in DOMAIN pars \cup DOMAIN d |-> IF n \in DOMAIN d THEN d[n] ELSE pars[n]])
                    /\ ret' = R("ok", 0)
                    /\ UNCHANGED <<varylist, variable_list, stepsizes, file, other>>
                    /\ Log([ev |-> "set_parameters", d |-> d])

Get(n) == /\ ret' = IF n \in DOMAIN pars THEN R("value", pars[n]) ELSE R("KeyError", 0)
          /\ UNCHANGED <<pars, varylist, variable_list, stepsizes, file, other>>
          /\ Log([ev |-> "get", n |-> n])

SetVarylist(vl) ==
  /\ IF \A i \in 1..Len(vl) : vl[i] \in DOMAIN pars /\ Has(variable_list, vl[i])
       THEN varylist' = vl /\ ret' = R("ok", 0)
       ELSE varylist' = varylist /\ ret' = R("AssertionError", 0)
  /\ UNCHANGED <<pars, variable_list, stepsizes, file, other>>
  /\ Log([ev |-> "set_varylist", vl |-> vl])

RECURSIVE Assign(_, _, _)
Assign(f, ns, vs) == IF ns = <<>> THEN f ELSE Assign(Put(f, Head(ns), Head(vs)), Tail(ns), Tail(vs))
SetVariableValues(vs) ==
  /\ IF Len(vs) = Len(varylist)
       THEN pars' = Assign(pars, varylist, vs) /\ ret' = R("ok", 0)
       ELSE pars' = pars /\ ret' = R("AssertionError", 0)
  /\ UNCHANGED <<varylist, variable_list, stepsizes, file, other>>
  /\ Log([ev |-> "set_variable_values", vs |-> vs])

GetVariableValues ==
  /\ ret' = IF \A i \in 1..Len(varylist) : varylist[i] \in DOMAIN pars
              THEN R("values", [i \in 1..Len(varylist) |-> pars[varylist[i]]]) ELSE R("KeyError", 0)
  /\ UNCHANGED <<pars, varylist, variable_list, stepsizes, file, other>>
  /\ Log([ev |-> "get_variable_values"])

GetVariableStepsizes ==
  /\ ret' = IF \A i \in 1..Len(varylist) : varylist[i] \in DOMAIN stepsizes
              THEN R("values", [i \in 1..Len(varylist) |-> stepsizes[varylist[i]]]) ELSE R("KeyError", 0)
  /\ UNCHANGED <<pars, varylist, variable_list, stepsizes, file, other>>
  /\ Log([ev |-> "get_variable_stepsizes"])
GetVariableList == /\ ret' = R("names", variable_list)
                   /\ UNCHANGED <<pars, varylist, variable_list, stepsizes, file, other>>
                   /\ Log([ev |-> "get_variable_list"])
GetParameters == /\ ret' = R("dict", pars)
                 /\ UNCHANGED <<pars, varylist, variable_list, stepsizes, file, other>>
                 /\ Log([ev |-> "get_parameters"])

UpdateOther == /\ other' = [n \in DOMAIN other |-> IF n \in DOMAIN pars THEN pars[n] ELSE other[n]]
               /\ ret' = R("ok", 0) /\ UNCHANGED <<pars, varylist, variable_list, stepsizes, file>>
               /\ Log([ev |-> "update_other"])
UpdateYourself == /\ pars' = [n \in DOMAIN pars |-> IF n \in DOMAIN other THEN other[n] ELSE pars[n]]
                  /\ ret' = R("ok", 0) /\ UNCHANGED <<varylist, variable_list, stepsizes, file, other>>
                  /\ Log([ev |-> "update_yourself"])
(* the other object gets an attribute from outside *)
OtherSet(n, v) == /\ other' = Put(other, n, v) /\ ret' = R("ok", 0)
                  /\ UNCHANGED <<pars, varylist, variable_list, stepsizes, file>>
                  /\ Log([ev |-> "other_set", n |-> n, v |-> v])

(* sorted "name str(value)" lines *)
SortedKeys(f) == SelectSeq(NameSeq, LAMBDA n : n \in DOMAIN f)
Save == /\ file' = [exists |-> TRUE,
                    lines |-> [i \in 1..Len(SortedKeys(pars)) |-> <<SortedKeys(pars)[i], pars[SortedKeys(pars)[i]]>>]]
        /\ ret' = R("ok", 0) /\ UNCHANGED <<pars, varylist, variable_list, stepsizes, other>>
        /\ Log([ev |-> "save"])
RECURSIVE LoadLines(_, _)
LoadLines(f, ls) == IF ls = <<>> THEN f
                    ELSE LET l == Head(ls) IN
                         LoadLines(IF Readable(l[2]) THEN Put(f, Underscore(l[1]), Loaded(l[2])) ELSE f, Tail(ls))
Load == /\ file.exists
        /\ pars' = TypeCheck(LoadLines(pars, file.lines))
        /\ ret' = R("ok", 0) /\ UNCHANGED <<varylist, variable_list, stepsizes, file, other>>
        /\ Log([ev |-> "load"])
(* a fresh object reads the file: the save/load round trip of the property *)
LoadFresh == /\ file.exists
             /\ pars' = TypeCheck(LoadLines(<<>>, file.lines))
             /\ varylist' = <<>> /\ variable_list' = <<>> /\ stepsizes' = <<>>
             /\ ret' = R("ok", 0) /\ UNCHANGED <<file, other>>
             /\ Log([ev |-> "load_fresh"])

(* a SECOND parameters object is filled from this one's dictionary (q.set_parameters(p.get_parameters())), then changed: the two
   objects are independent - nothing of this object moves; what comes back is the value read from the second object *)
Fork(n, v) == /\ ret' = R("value", v)
              /\ UNCHANGED <<pars, varylist, variable_list, stepsizes, file, other>>
              /\ Log([ev |-> "fork", n |-> n, v |-> v])

(* the module-level reader: a new object filled from the file *)
ReadParFile == /\ file.exists
               /\ pars' = TypeCheck(LoadLines(<<>>, file.lines))
               /\ varylist' = <<>> /\ variable_list' = <<>> /\ stepsizes' = <<>>
               /\ ret' = R("ok", 0) /\ UNCHANGED <<file, other>>
               /\ Log([ev |-> "read_par_file"])

Bools == {TRUE, FALSE}
SmallSeqs(S) == {<<>>} \cup {<<a>> : a \in S} \cup {<<a, b>> : a \in S, b \in S}
Dicts == {[n \in S |-> t] : S \in {{NameSeq[1]}, {NameSeq[Len(NameSeq)]}, Names}, t \in TokSet}
         \cup {<<>>}

Kinds == {"addpar", "set", "set_parameters", "get", "set_varylist", "set_variable_values", "get_variable_values",
          "update_other", "update_yourself", "other_set", "save", "load", "load_fresh",
          "addpar_sl", "construct", "get_variable_stepsizes", "get_variable_list", "get_parameters", "read_par_file", "fork"}
OfKind(k) ==
  CASE k = "addpar" -> \E n \in Names, v \in TokSet, vary \in Bools, cv \in Bools : AddPar(n, v, vary, cv, Toks[1])
    [] k = "set" -> \E n \in Names, v \in TokSet : Set(n, v)
    [] k = "set_parameters" -> \E d \in Dicts : SetParameters(d)
    [] k = "get" -> \E n \in Names : Get(n)
    [] k = "set_varylist" -> \E vl \in SmallSeqs(Names) : SetVarylist(vl)
    [] k = "set_variable_values" -> \E vs \in SmallSeqs(TokSet) : SetVariableValues(vs)
    [] k = "get_variable_values" -> GetVariableValues
    [] k = "update_other" -> UpdateOther
    [] k = "update_yourself" -> UpdateYourself
    [] k = "other_set" -> \E n \in Names, v \in TokSet : OtherSet(n, v)
    [] k = "save" -> Save
    [] k = "load" -> Load
    [] k = "load_fresh" -> LoadFresh
    [] k = "addpar_sl" -> \E n \in Names, v \in TokSet, vary \in Bools, cv \in Bools : AddParSL(n, v, vary, cv, Toks[Len(Toks)])
    [] k = "construct" -> \E d \in Dicts : Construct(d)
    [] k = "get_variable_stepsizes" -> GetVariableStepsizes
    [] k = "get_variable_list" -> GetVariableList
    [] k = "get_parameters" -> GetParameters
    [] k = "read_par_file" -> ReadParFile
    [] k = "fork" -> \E n \in Names, v \in TokSet : Fork(n, v)
Free == IF kind = "none"
          THEN \E k \in Kinds : kind' = k /\ UNCHANGED <<pars, varylist, variable_list, stepsizes, file, other, ret, hist>>
          ELSE OfKind(kind) /\ kind' = "none"
Named(a) == CASE a = "save" -> Save [] a = "load" -> Load [] a = "load_fresh" -> LoadFresh
              [] a = "get_variable_values" -> GetVariableValues
              [] a = "update_yourself" -> UpdateYourself [] a = "update_other" -> UpdateOther
Next == /\ Len(hist) < Depth
        /\ LET k == Len(hist) - (Depth - Len(ForcedTail)) IN
             IF k >= 0 THEN Named(ForcedTail[k + 1]) /\ kind' = "none" ELSE Free
Spec == Init /\ [][Next /\ UNCHANGED other0]_vars

---------------------------------------------------------------------------
(* get returns the last value written (modulo the documented coercion) *)
TypeOK == /\ DOMAIN pars \subseteq Names \cup {Underscore(n) : n \in Names}
          /\ \A i \in 1..Len(varylist) : varylist[i] \in Names
(* after load in a fresh object: every readable saved entry is back with its type,
   numeric-looking text became a number, hyphens became underscores *)
RoundTrip == (Len(hist) > 0 /\ hist[Len(hist)].e.ev \in {"load_fresh", "read_par_file"}) =>
   \A i \in 1..Len(file.lines) :
      LET n == file.lines[i][1]  t == file.lines[i][2] IN
        (Readable(t) /\ ~\E j \in (i+1)..Len(file.lines) : Underscore(file.lines[j][1]) = Underscore(n) /\ Readable(file.lines[j][2]))
          => (Underscore(n) \in DOMAIN pars /\ pars[Underscore(n)] = Loaded(t)
              /\ (t.k \in {"int", "float", "str_plain"} => pars[Underscore(n)] = t))
(* the varied-values list follows varylist order *)
VariedFollows == (Len(hist) > 0 /\ hist[Len(hist)].e.ev = "get_variable_values" /\ ret.tag = "values") =>
   (Len(ret.val) = Len(varylist) /\ \A i \in 1..Len(varylist) : ret.val[i] = pars[varylist[i]])
StepsFollow == (Len(hist) > 0 /\ hist[Len(hist)].e.ev = "get_variable_stepsizes" /\ ret.tag = "values") =>
   (Len(ret.val) = Len(varylist) /\ \A i \in 1..Len(varylist) : ret.val[i] = stepsizes[varylist[i]])
(* every name that may vary has a step size, and only those *)
StepsizesDomain == DOMAIN stepsizes = {variable_list[i] : i \in 1..Len(variable_list)}
(* set_varylist only ever installs names that may vary *)
VarylistLegal == [][(\E vl \in SmallSeqs(Names) : SetVarylist(vl)) =>
                      (varylist' = varylist \/ \A i \in 1..Len(varylist') : Has(variable_list, varylist'[i]))]_vars

Emit == Len(hist) = Depth => PrintT("@@" \o ToJson([hist |-> hist, other0 |-> other0]))
=============================================================================
