------------------------------- MODULE EtaRad -------------------------------
(* (dety,detz) <-> (eta, radius) of xfab.detector on exact points:          *)
(* eta is a Pythagorean angle (c,s)/d, c*c + s*s = d*d, radius r >= 1,      *)
(* centre (cy,cz) in quarter pixels:                                        *)
(*    dety = cy - r*s/d ,  detz = cz + r*c/d       (eta clockwise from 12h) *)
(* Emitted coordinates are numerators over the common denominator 4*d.      *)
EXTENDS Integers, Sequences, TLC, Json, FiniteSets
Triples == {<<3,4,5>>, <<5,12,13>>, <<8,15,17>>, <<7,24,25>>, <<20,21,29>>, <<1,0,1>>, <<99,20,101>>, <<2499,100,2501>>}
(* all sign/swap images: angles in all four quadrants, incl. 0, 90, 180, 270 *)
Angles == UNION {{<<t[1],t[2],t[3]>>, <<-t[1],t[2],t[3]>>, <<t[1],-t[2],t[3]>>, <<-t[1],-t[2],t[3]>>,
                  <<t[2],t[1],t[3]>>, <<-t[2],t[1],t[3]>>, <<t[2],-t[1],t[3]>>, <<-t[2],-t[1],t[3]>>} : t \in Triples}
Radii == {1, 2, 7, 100}
(* rational radii rn/rd between 1 and sqrt(2): both offsets can be below one pixel although the radius is not *)
RatRadii == {<<6, 5>>, <<5, 4>>, <<7, 5>>, <<21, 20>>}
Centres == {<<0,0>>, <<4001, 4090>>, <<-37, 8191>>}      \* quarter pixels
(* second family: whole pixels (integer-typed positions, what a peak search or a mouse click delivers) against a centre given *)
(* in quarter pixels.  The offsets are exact in quarters, the radius is the square root of a rational: radius^2 = R2/16.       *)
Pixels == {<<0, 0>>, <<1030, 1027>>, <<-5, 2047>>, <<1000, 1023>>, <<1001, 1022>>, <<12, 2040>>, <<2047, 2047>>}
VARIABLES ang, r, rd, cen, done, pix
(* radius exactly 1 only where the point is exactly representable in floating point (axis-aligned):
   the property's quantifier is radius >= 1 and a rounded coordinate must not fall inside it *)
NoPix == <<>>
Init == \/ /\ ang \in Angles /\ cen \in Centres /\ done = FALSE /\ pix = NoPix
           /\ \/ (r \in Radii /\ rd = 1 /\ (r = 1 => ang[3] = 1))
              \/ (\E q \in RatRadii : r = q[1] /\ rd = q[2])
        \/ /\ pix \in Pixels /\ cen \in Centres /\ done = FALSE /\ ang = <<1, 0, 1>> /\ r = 0 /\ rd = 1
Next == ~done /\ done' = TRUE /\ UNCHANGED <<ang, r, rd, cen, pix>>
Spec == Init /\ [][Next]_<<ang, r, rd, cen, done, pix>>
OffY == 4 * pix[1] - cen[1]          \* pixel family: offsets from the centre in quarter pixels
OffZ == 4 * pix[2] - cen[2]
R2 == OffY * OffY + OffZ * OffZ      \* 16 radius^2
InRange == R2 >= 16                  \* the property's quantifier: radius >= 1
OnCircle == ang[1]*ang[1] + ang[2]*ang[2] = ang[3]*ang[3]
(* numerators over 4*d*rd (radius r/rd) *)
Dety == cen[1]*ang[3]*rd - 4*r*ang[2]
Detz == cen[2]*ang[3]*rd + 4*r*ang[1]
(* the point is at distance r from the centre: (dety-cy)^2 + (detz-cz)^2 = r^2, over (4d)^2 *)
RadiusExact == (pix = NoPix /\ r * ang[3] <= 2900) =>      \* 32-bit guard
               (Dety - cen[1]*ang[3]*rd)*(Dety - cen[1]*ang[3]*rd) + (Detz - cen[2]*ang[3]*rd)*(Detz - cen[2]*ang[3]*rd)
               = 16*r*r*ang[3]*ang[3]
Emit == done => PrintT("@@" \o ToJson(IF pix # NoPix THEN [pix |-> pix, cen |-> cen, offy |-> OffY, offz |-> OffZ, r2 |-> R2, inrange |-> InRange] ELSE [c |-> ang[1], s |-> ang[2], d |-> ang[3], r |-> r, rd |-> rd, cen |-> cen,
                                        dety |-> Dety, detz |-> Detz, den |-> 4*ang[3]*rd]))
=============================================================================
