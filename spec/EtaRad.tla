------------------------------- MODULE EtaRad -------------------------------
(* (dety,detz) <-> (eta, radius) of xfab.detector on exact points:          *)
(* eta is a Pythagorean angle (c,s)/d, c*c + s*s = d*d, radius r >= 1,      *)
(* centre (cy,cz) in quarter pixels:                                        *)
(*    dety = cy - r*s/d ,  detz = cz + r*c/d       (eta clockwise from 12h) *)
(* Emitted coordinates are numerators over the common denominator 4*d.      *)
EXTENDS Integers, Sequences, TLC, Json, FiniteSets
Triples == {<<3,4,5>>, <<5,12,13>>, <<8,15,17>>, <<7,24,25>>, <<20,21,29>>, <<1,0,1>>, <<99,20,101>>, <<2499,100,2501>>}
(* all sign/swap images: angles in all four quadrants, incl. 0, 90, 180, 270 *)
Angles == UNION {{<<t[1],t[2],t[3]>>, <<-t[1],t[2],t[3]>>, <<t[1],-t[2],t[3]>>, <<-t[1],-t[2],t[3]>>,
                  <<t[2],t[1],t[3]>>, <<-t[2],t[1],t[3]>>, <<t[2],-t[1],t[3]>>, <<-t[2],-t[1],t[3]>>} : t \in Triples}
Radii == {1, 2, 7, 100}
Centres == {<<0,0>>, <<4001, 4090>>, <<-37, 8191>>}      \* quarter pixels
VARIABLES ang, r, cen, done
(* radius exactly 1 only where the point is exactly representable in floating point (axis-aligned):
   the property's quantifier is radius >= 1 and a rounded coordinate must not fall inside it *)
Init == ang \in Angles /\ r \in Radii /\ cen \in Centres /\ done = FALSE /\ (r = 1 => ang[3] = 1)
Next == ~done /\ done' = TRUE /\ UNCHANGED <<ang, r, cen>>
Spec == Init /\ [][Next]_<<ang, r, cen, done>>
OnCircle == ang[1]*ang[1] + ang[2]*ang[2] = ang[3]*ang[3]
(* numerators over 4*d *)
Dety == cen[1]*ang[3] - 4*r*ang[2]
Detz == cen[2]*ang[3] + 4*r*ang[1]
(* the point is at distance r from the centre: (dety-cy)^2 + (detz-cz)^2 = r^2, over (4d)^2 *)
RadiusExact == (r * ang[3] <= 2900) =>      \* 32-bit guard
               (Dety - cen[1]*ang[3])*(Dety - cen[1]*ang[3]) + (Detz - cen[2]*ang[3])*(Detz - cen[2]*ang[3])
               = 16*r*r*ang[3]*ang[3]
Emit == done => PrintT("@@" \o ToJson([c |-> ang[1], s |-> ang[2], d |-> ang[3], r |-> r, cen |-> cen,
                                        dety |-> Dety, detz |-> Detz, den |-> 4*ang[3]]))
=============================================================================
