SPECIFICATION Spec
CONSTANT Depth = 4
INVARIANT Emit
INVARIANT CayleyProper
INVARIANT MetricValid
INVARIANT AdjugateInverse
INVARIANT MatsValid
CHECK_DEADLOCK FALSE
INVARIANT EmitMats
INVARIANT IllValid
