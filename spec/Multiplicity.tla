---------------------------- MODULE Multiplicity ----------------------------
(* C15: site multiplicity = size of the orbit of a position under the       *)
(* group's operations modulo lattice translations.                          *)
(* Positions are exact rationals p/N with 24 | N.  C15Cases is generated    *)
(* by the harness (which tables, which positions; seeded sample in the      *)
(* quick tier, the full grid in the thorough tier).                         *)
EXTENDS SgOps, Json, C15Cases     \* C15Cases: Cases (set of <<table, <<p, N>>>>), TableSel, Points (product form)

VARIABLES t, pos, pc, mult
vars == <<t, pos, pc, mult>>

Init == /\ \/ \E c \in Cases : t = c[1] /\ pos = c[2]
           \/ (t \in TableSel /\ pos \in Points)
        /\ pc = "count" /\ mult = 0

(* the requirement: number of distinct images modulo the lattice *)
Count == /\ pc = "count"
         /\ mult' = Mult(Tables[t], pos[1], pos[2])
         /\ pc' = "done"
         /\ UNCHANGED <<t, pos>>

Next == Count
Spec == Init /\ [][Next]_vars

(* Model-level theorems that make "orbit size" the right notion; they hold  *)
(* for every table that satisfies the group laws of C04.                    *)
OrbitStab == pc = "done" => OrbitStabiliser(Tables[t], pos[1], pos[2])
Divides == pc = "done" => (mult > 0 /\ NOps(Tables[t]) % mult = 0)
(* the orbit does not depend on the representative *)
OrbitIsClass == pc = "done" =>
    \A q \in Images(Tables[t], pos[1], pos[2]) : Images(Tables[t], q, pos[2]) = Images(Tables[t], pos[1], pos[2])
(* a lattice shift of the position does not change the orbit size *)
ShiftInvariant == pc = "done" =>
    Mult(Tables[t], VAdd(pos[1], <<pos[2], -2*pos[2], 3*pos[2]>>), pos[2]) = mult

Emit == pc = "done" =>
   PrintT("@@" \o ToJson([t |-> t, p |-> pos[1], N |-> pos[2], m |-> mult,
                           ok |-> OrbitStab /\ Divides /\ OrbitIsClass /\ ShiftInvariant]))
=============================================================================
