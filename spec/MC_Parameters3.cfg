SPECIFICATION Spec
CONSTANTS NameSeq <- TinyNames
          Toks <- TinyToks
          Depth = 5
          ForcedTail <- TailRoundTrip
INVARIANT Emit
INVARIANT TypeOK
INVARIANT RoundTrip
INVARIANT VariedFollows
INVARIANT StepsFollow
INVARIANT StepsizesDomain
PROPERTY VarylistLegal
CHECK_DEADLOCK FALSE
