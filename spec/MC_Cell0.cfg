SPECIFICATION Spec
CONSTANTS Diag = {4}
          OffMax = 0
          Depth = 0
INVARIANT Emit
INVARIANT AdjugateInverse
INVARIANT QPositive
CHECK_DEADLOCK FALSE
