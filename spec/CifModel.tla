------------------------------ MODULE CifModel ------------------------------
(* Ingestion of CIF and PDB files by xfab.structure.build_atomlist as a       *)
(* table of FIELD-DERIVATION RULES.  An abstract file is a configuration      *)
(* vector; reading it derives, for every field of the atom list, which item   *)
(* of the file feeds it, which conversion applies and which default is used.  *)
(* TLC enumerates the full product of configurations - one generated file per *)
(* configuration - and the harness applies the derived plan to the numbers AS *)
(* PRINTED in the generated file and compares with what the reader returns.   *)
EXTENDS Integers, Sequences, FiniteSets, TLC, Json

AdpKinds == {"Uiso", "Uani", "Biso", "Bani", "absent"}
(* per-file pattern of the per-atom adp kinds (atoms cycle through the sequence) *)
AdpPatterns == { <<"Uiso">>, <<"Uani">>, <<"Biso">>, <<"Bani">>, <<"absent">>,
                 <<"Uiso", "Uani">>, <<"Biso", "Bani", "Uiso">>, <<"Uani", "Bani", "Biso", "Uiso">> }
CifConfigs == [ kind : {"cif"}, adp : AdpPatterns, esd : BOOLEAN, occ : BOOLEAN,
                mult : {"standard", "shelx", "absent"}, typeloop : {"dispersion", "question", "absent"},
                global : BOOLEAN, blanks : BOOLEAN ]
PdbConfigs == [ kind : {"pdb"}, hetatm : BOOLEAN, scaletrans : BOOLEAN, placeholders : BOOLEAN, lowercase_element : BOOLEAN ]

VARIABLES cfg, plan
vars == <<cfg, plan>>
Init == (cfg \in CifConfigs \/ cfg \in PdbConfigs) /\ plan = <<>>

(* rule for one adp kind: resulting adp_type, source item, conversion *)
AdpRule(k) ==
  CASE k = "Uiso"   -> [type |-> "Uiso", src |-> "_atom_site_U_iso_or_equiv", conv |-> "none", n |-> 1]
    [] k = "Biso"   -> [type |-> "Uiso", src |-> "_atom_site_B_iso_or_equiv", conv |-> "div8pi2", n |-> 1]
    [] k = "Uani"   -> [type |-> "Uani", src |-> "_atom_site_aniso_U_11,22,33,23,13,12", conv |-> "none", n |-> 6]
    [] k = "Bani"   -> [type |-> "Uani", src |-> "_atom_site_aniso_B_11,22,33,23,13,12", conv |-> "div8pi2", n |-> 6]
    [] k = "absent" -> [type |-> "None", src |-> "default 0.0", conv |-> "none", n |-> 1]

ReadCif ==
  /\ cfg.kind = "cif" /\ plan = <<>>
  /\ plan' = [ cell      |-> [src |-> "_cell_length_a,b,c / _cell_angle_alpha,beta,gamma", conv |-> "strip_esd"],
               sgname    |-> [src |-> "_symmetry_space_group_name_H-M", conv |-> "remove_whitespace"],
               label     |-> [src |-> "_atom_site_label", conv |-> "none"],
               atomtype  |-> [src |-> "_atom_site_type_symbol", conv |-> "upper"],
               pos       |-> [src |-> "_atom_site_fract_x,y,z", conv |-> "strip_esd"],
               adp       |-> [i \in 1..Len(cfg.adp) |-> AdpRule(cfg.adp[i])],
               occ       |-> IF cfg.occ THEN [src |-> "_atom_site_occupancy", conv |-> "strip_esd"]
                                        ELSE [src |-> "default 1.0", conv |-> "none"],
               symmulti  |-> CASE cfg.mult = "standard" -> [src |-> "_atom_site_symmetry_multiplicity", conv |-> "strip_esd"]
                               [] cfg.mult = "shelx"    -> [src |-> "_atom_site_symetry_multiplicity", conv |-> "strip_esd"]
                               [] cfg.mult = "absent"   -> [src |-> "computed orbit size", conv |-> "none"],
               dispersion|-> CASE cfg.typeloop = "dispersion" -> [src |-> "_atom_type_scat_dispersion_real,imag", conv |-> "strip_esd"]
                               [] cfg.typeloop = "question"   -> [src |-> "None (unparsable)", conv |-> "none"]
                               [] cfg.typeloop = "absent"     -> [src |-> "None for every site type", conv |-> "none"],
               block     |-> IF cfg.global THEN [src |-> "the block that is not 'global'", conv |-> "none"]
                                           ELSE [src |-> "the only block", conv |-> "none"] ]
  /\ UNCHANGED cfg

ReadPdb ==
  /\ cfg.kind = "pdb" /\ plan = <<>>
  /\ plan' = [ cell      |-> [src |-> "CRYST1 columns 7-54", conv |-> "float"],
               sgname    |-> [src |-> "CRYST1 columns 56-66", conv |-> "drop '1' tokens, concatenate"],
               label     |-> [src |-> "columns 13-16", conv |-> "remove_whitespace"],
               atomtype  |-> [src |-> "columns 77-78", conv |-> "remove_whitespace, upper"],
               pos       |-> [src |-> "columns 31-54 (orthogonal)", conv |-> "SCALE matrix as printed"],
               adp       |-> << [type |-> "Uiso", src |-> "columns 61-66 (B)", conv |-> "div8pi2", n |-> 1] >>,
               occ       |-> [src |-> "columns 55-60", conv |-> "float"],
               symmulti  |-> [src |-> "computed orbit size", conv |-> "none"],
               dispersion|-> [src |-> "None for every element met", conv |-> "none"],
               block     |-> [src |-> "ATOM and HETATM records", conv |-> "none"] ]
  /\ UNCHANGED cfg
Next == ReadCif \/ ReadPdb
Spec == Init /\ [][Next]_vars

Fields == {"cell", "sgname", "label", "atomtype", "pos", "adp", "occ", "symmulti", "dispersion", "block"}
(* every field is derived, exactly once; B values are always converted, U values never; types are normalised to U *)
PlanComplete == plan # <<>> => DOMAIN plan = Fields
AdpNormalised == plan # <<>> => \A i \in 1..Len(plan.adp) :
     /\ plan.adp[i].type \in {"Uiso", "Uani", "None"}
     /\ (plan.adp[i].conv = "div8pi2") <=> (cfg.kind = "pdb" \/ cfg.adp[i] \in {"Biso", "Bani"})
MultiplicityRule == plan # <<>> =>
     ((plan.symmulti.src = "computed orbit size") <=> (cfg.kind = "pdb" \/ cfg.mult = "absent"))
Emit == plan # <<>> => PrintT("@@" \o ToJson([cfg |-> cfg, plan |-> plan]))
=============================================================================
