SPECIFICATION Spec
INVARIANT Emit
INVARIANT MetricValid
PROPERTY Terminates
CHECK_DEADLOCK FALSE
