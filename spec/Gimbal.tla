------------------------------- MODULE Gimbal -------------------------------
(* Near-gimbal band of u_to_euler.  Pythagorean angles reach sin(PHI) of a   *)
(* few 1e-3 with 32-bit integers; below that the input space is covered by   *)
(* MAGNITUDE CLASSES: an angle is <<base, dec, sgn>> = base + sgn * 10^-dec  *)
(* (dec = 0 means exactly the base value), base in                           *)
(* {"zero","halfpi","pi","threehalfpi","twopi","generic1","generic2"}.       *)
(* TLC enumerates the class product; the harness concretises each class,     *)
(* builds the float matrix Rz.Rx.Rz itself and checks the property directly: *)
(* angles in range and rebuild within 1e-6 (no expected angle is needed).    *)
(*                                                                           *)
(* AbsZeroingBites is the implementation-shaped model of the defect that was *)
(* repaired: _arctan2 zeroed |x|,|y| < 1e-8 ABSOLUTELY, and the entries it   *)
(* receives are sin(phi)*sin(PHI) ~ 10^-(k1+kP).                             *)
EXTENDS Integers, Sequences, TLC, Json, FiniteSets
CONSTANTS PhiDecs, PHIDecs      \* sets of decades in use

PHIClasses == {<<"zero", 0, 1>>, <<"pi", 0, 1>>}
              \cup {<<"zero", k, 1>> : k \in PHIDecs} \cup {<<"pi", k, -1>> : k \in PHIDecs}
PhiClasses == {<<"zero", 0, 1>>, <<"halfpi", 0, 1>>, <<"pi", 0, 1>>, <<"threehalfpi", 0, 1>>,
               <<"generic1", 0, 1>>, <<"generic2", 0, 1>>}
              \cup {<<"zero", k, 1>> : k \in PhiDecs} \cup {<<"twopi", k, -1>> : k \in PhiDecs}
              \cup {<<"pi", k, s>> : k \in PhiDecs, s \in {-1, 1}}
VARIABLES c1, cP, c2, stage
vars == <<c1, cP, c2, stage>>
Init == c1 \in PhiClasses /\ cP \in PHIClasses /\ c2 \in PhiClasses /\ stage = "class"
Next == stage = "class" /\ stage' = "emitted" /\ UNCHANGED <<c1, cP, c2>>
Spec == Init /\ [][Next]_vars

Small(c) == c[1] \in {"zero", "pi", "twopi"} /\ c[2] > 0      \* sin of the angle is about 10^-dec
(* the repaired defect: a component sin(phi)*sin(PHI) below 1e-8 was zeroed although it carries an angle
   bigger than the 1e-6 the property allows *)
AbsZeroingBites == /\ cP[2] > 0 /\ cP[2] < 8
                   /\ \/ (Small(c1) /\ c1[2] + cP[2] >= 8 /\ c1[2] < 6)
                      \/ (Small(c2) /\ c2[2] + cP[2] >= 8 /\ c2[2] < 6)
Emit == stage = "emitted" => PrintT("@@" \o ToJson([c1 |-> c1, cP |-> cP, c2 |-> c2, abszero |-> AbsZeroingBites]))
=============================================================================
