SPECIFICATION Spec
INVARIANT Emit
PROPERTY Terminates
CHECK_DEADLOCK FALSE
