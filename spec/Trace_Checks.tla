---------------------------- MODULE Trace_Checks ----------------------------
(* Trace validation: event sequences recorded from the real xfab (one event *)
(* per public call, logged at return, on the error path too, with the       *)
(* observed outcome class and the observed state of the switch) must be     *)
(* behaviours of Checks.tla.  ChecksTraces (generated): Traces.             *)
EXTENDS Checks, ChecksTraces
VARIABLES tid, l
tvars == <<switch, out, hist, tid, l>>
TrInit == Init /\ tid \in 1..Len(Traces) /\ l = 1
Ev == Traces[tid][l]
More == l <= Len(Traces[tid])
TrAssign == /\ More /\ Ev.ev = "assign"
            /\ Assign(Ev.v, Ev.th)
            /\ out' = Ev.out /\ Active(switch') = Ev.sw   \* logged outcome and logged (observable) switch state
            /\ l' = l + 1 /\ tid' = tid
TrCall == /\ More /\ Ev.ev = "call"
          /\ Call([m |-> Ev.m, f |-> Ev.f, c |-> Ev.c], Ev.th)
          /\ out' = Ev.out /\ Active(switch') = Ev.sw
          /\ l' = l + 1 /\ tid' = tid
TrOther == /\ More /\ Ev.ev = "other_instance"
           /\ OtherInstance(Ev.v, Ev.th)
           /\ out' = Ev.out /\ Active(switch') = Ev.sw
           /\ l' = l + 1 /\ tid' = tid
TrNext == TrAssign \/ TrCall \/ TrOther
TrSpec == TrInit /\ [][TrNext]_tvars
(* progress report: the harness accepts a trace iff l reached Len+1 *)
TrEmit == PrintT("@@" \o ToJson([tid |-> tid, l |-> l]))
TrInvariant == SwitchIsLastValid /\ NeverRejectsValid /\ OffMeansOff /\ OnRejectsInvalid /\ OneSwitchPerProcess
=============================================================================
