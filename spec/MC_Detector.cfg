SPECIFICATION Spec
INVARIANT Emit
INVARIANT TiltProper
INVARIANT RayUnit
INVARIANT TowardsDetector
CHECK_DEADLOCK FALSE
