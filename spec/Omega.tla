-------------------------------- MODULE Omega --------------------------------
(* The (omega, eta) solvers of xfab, constructively.                          *)
(* Angles are Pythagorean triples <<c,s,d>>.  For a Bragg angle theta, an     *)
(* azimuth eta and a goniometer setting omega (with tilts) the diffracting    *)
(* scattering vector in the laboratory is                                     *)
(*   g_lab = ( -sin^2 th, -sin 2th sin eta / 2, sin 2th cos eta / 2 )         *)
(* and g_w = Omega' g_lab is a vector that MUST diffract at (omega, eta).     *)
(* Omega is the matrix the module itself uses for that solver, DEFINED here   *)
(* as in Rotation.tla:                                                        *)
(*   plain   : Rz(omega)                        find_omega                    *)
(*   general : Rx(chi) Ry(wedge) Rz(omega)      find_omega_general            *)
(*   quart   : P Rz(omega) P', P = Rx(wx)Ry(wy) find_omega_quart              *)
(*   wedge   : Ry(-wedge) Rz(omega)             find_omega_wedge              *)
(* OmegaCases (generated): Cases = set of [solver, th, eta, om, t1, t2];      *)
(* Unreach = set of [solver, th, t1, t2, al, be, sgn] for the family that can *)
(* never reach the diffraction condition.                                     *)
EXTENDS IntAlg, TLC, Json, OmegaCases

Rx(a) == << <<a[3], 0, 0>>, <<0, a[1], -a[2]>>, <<0, a[2], a[1]>> >>
Ry(a) == << <<a[1], 0, a[2]>>, <<0, a[3], 0>>, <<-a[2], 0, a[1]>> >>
Rz(a) == << <<a[1], -a[2], 0>>, <<a[2], a[1], 0>>, <<0, 0, a[3]>> >>
Neg(a) == <<a[1], -a[2], a[3]>>                 \* the angle -a

(* tilt part P (numerator, denominator) and the full matrix *)
Tilt(solver, t1, t2) ==
  CASE solver = "plain"   -> [N |-> I3, den |-> 1]
    [] solver = "general" -> [N |-> MatMul(Rx(t1), Ry(t2)), den |-> t1[3]*t2[3]]
    [] solver = "quart"   -> [N |-> MatMul(Rx(t1), Ry(t2)), den |-> t1[3]*t2[3]]
    [] solver = "wedge"   -> [N |-> Ry(Neg(t2)), den |-> t2[3]]
OmegaMat(solver, om, t1, t2) ==
  LET P == Tilt(solver, t1, t2) IN
  IF solver = "quart"
    THEN [N |-> MatMul(P.N, MatMul(Rz(om), Transpose(P.N))), den |-> P.den * P.den * om[3]]
    ELSE [N |-> MatMul(P.N, Rz(om)), den |-> P.den * om[3]]
(* rotation axis in the laboratory: P.z *)
Axis(solver, t1, t2) == LET P == Tilt(solver, t1, t2) IN [n |-> Col(P.N, 3), den |-> P.den]

(* g_lab numerators over th[3]^2 * eta[3] *)
GLab(th, eta) == << -th[2]*th[2]*eta[3], -th[2]*th[1]*eta[2], th[2]*th[1]*eta[1] >>

VARIABLES cs, stage
vars == <<cs, stage>>
(* thorough tier: the full product of the generated angle sets, enumerated by TLC itself *)
Zero == <<1, 0, 1>>
Product == {[kind |-> "reach", solver |-> sv, th |-> th, eta |-> eta, om |-> om, t1 |-> t1, t2 |-> t2,
             al |-> Zero, be |-> Zero, sgn |-> 1] :
              sv \in PSolvers, th \in PTh, eta \in PEta, om \in POm, t1 \in PTilt, t2 \in PTilt}
ProductOK(c) == /\ (c.solver = "plain" => c.t1 = Zero /\ c.t2 = Zero)
                /\ (c.solver = "wedge" => c.t1 = Zero)
                /\ (c.solver = "quart" => c.t1[3] * c.t2[3] <= 1625)
Init == (cs \in Cases \/ cs \in Unreach \/ (cs \in Product /\ ProductOK(cs))) /\ stage = "construct"
Solve == stage = "construct" /\ stage' = "solved" /\ UNCHANGED cs
Next == Solve
Spec == Init /\ [][Next]_vars

IsCase == cs.kind = "reach"
(* the constructed solution is a double root (tangency) iff the x-component of n x g_lab vanishes *)
TangencyNum == LET a == Axis(cs.solver, cs.t1, cs.t2) IN a.n[2]*cs.eta[1] + a.n[3]*cs.eta[2]
Tangent == TangencyNum = 0
(* doubly degenerate: g parallel to the rotation axis and on the Bragg cone - EVERY omega diffracts, the solvers' equation
   a cos w + b sin w = c has a = b = c = 0 and no finite answer is meaningful.  Excluded from every claim (it is inside the
   property's tangency exclusion).  n x g_lab = 0, decided on the numerators (g_lab scaled by 1/(s c) where possible). *)
Degenerate == LET a == Axis(cs.solver, cs.t1, cs.t2)
                  g == << -cs.th[2]*cs.eta[3], -cs.th[1]*cs.eta[2], cs.th[1]*cs.eta[1] >>      \* g_lab / (s/(d^2 d_e)) 
              IN /\ a.n[2]*g[3] - a.n[3]*g[2] = 0
                 /\ a.n[3]*g[1] - a.n[1]*g[3] = 0
                 /\ a.n[1]*g[2] - a.n[2]*g[1] = 0
(* |g_lab|^2 = sin^2 theta, checked where it fits 32 bits *)
NormExact == (IsCase /\ cs.th[3] <= 101 /\ cs.th[2]*cs.th[3]*cs.eta[3] <= 46000) =>
    Dot(GLab(cs.th, cs.eta), GLab(cs.th, cs.eta)) = cs.th[2]*cs.th[2]*cs.th[3]*cs.th[3]*cs.eta[3]*cs.eta[3]
(* the goniometer matrix is a proper rotation (guarded) *)
OmegaOrthonormal == (IsCase /\ OmegaMat(cs.solver, cs.om, cs.t1, cs.t2).den <= 26000) =>
    LET O == OmegaMat(cs.solver, cs.om, cs.t1, cs.t2) IN MatMul(Transpose(O.N), O.N) = MatScale(O.den*O.den, I3)
(* never-diffracting family: g at angle alpha from the rotation axis;
   (sin th + n_x cos al)^2 > sin^2 al (1 - n_x^2), all scaled to integers *)
UnreachExact == (~IsCase) =>
    LET a == Axis(cs.solver, cs.t1, cs.t2)
        nx == cs.sgn * a.n[1]
        lhs == cs.th[2]*a.den*cs.al[3] + nx*cs.al[1]*cs.th[3]
        rhs == cs.al[2]*cs.al[2]*(a.den*a.den - nx*nx)*cs.th[3]*cs.th[3]
    IN lhs*lhs > rhs
Unreachable == ~IsCase /\ UnreachExact

Emit == stage = "solved" =>
   PrintT("@@" \o ToJson(
     IF IsCase
       THEN [cs |-> cs, N |-> OmegaMat(cs.solver, cs.om, cs.t1, cs.t2).N, den |-> OmegaMat(cs.solver, cs.om, cs.t1, cs.t2).den,
             tangent |-> Tangent, degenerate |-> (cs.th[3] <= 101 /\ Degenerate), tangnum |-> TangencyNum,
             tangden |-> Axis(cs.solver, cs.t1, cs.t2).den * cs.eta[3]]
       ELSE [cs |-> cs, P |-> Tilt(cs.solver, cs.t1, cs.t2).N, pden |-> Tilt(cs.solver, cs.t1, cs.t2).den,
             unreachable |-> UnreachExact]))
=============================================================================
