------------------------------- MODULE Strain -------------------------------
(* Strain <-> strained B matrix (Oddershede 2012) on exact lattice points.   *)
(* B0 (unstrained) and B (strained) are integer upper-triangular matrices    *)
(* with positive diagonal; the float matrices handed to the code are         *)
(* (2pi)^w * s * B0 and (2pi)^w * s * B for a scale s, and the unstrained    *)
(* cell is the one whose reciprocal metric is s^2 * B0'B0.                   *)
(*   eps = sym(B0 . B^-1) - I = (X + X')/(2 det B) - I,   X = B0 . adj B     *)
(* The strain is emitted as six integer numerators (xfab order e11, e12,     *)
(* e13, e22, e23, e33) over the denominator 2 det B.                         *)
(* StrainCases (generated): Cases = set of <<B0, B, p, q>>.                  *)
EXTENDS IntAlg, TLC, Json, StrainCases

CayleyN(p, q) == LET pp == Dot(p, p)
                     K == << <<0, -p[3], p[2]>>, <<p[3], 0, -p[1]>>, <<-p[2], p[1], 0>> >> IN
                 [i \in 1..3 |-> [j \in 1..3 |-> (IF i = j THEN q*q - pp ELSE 0) + 2*p[i]*p[j] + 2*q*K[i][j]]]

VARIABLES c, rep, path
vars == <<c, rep, path>>
B0 == c[1]
B == c[2]
X == MatMul(B0, Adj(B))
EpsNum == LET d == Det(B) IN
          << 2*X[1][1] - 2*d, X[1][2] + X[2][1], X[1][3] + X[3][1], 2*X[2][2] - 2*d, X[2][3] + X[3][2], 2*X[3][3] - 2*d >>
EpsDen == 2 * Det(B)
(* the property's quantifier: strain components up to 0.1 *)
InRange == \A i \in 1..6 : 10 * Abs(EpsNum[i]) <= EpsDen

Init == c \in Cases /\ rep = "B" /\ path = <<>>
Go(name, from, to) == rep = from /\ rep' = to /\ path' = Append(path, name) /\ UNCHANGED c
BToEps     == Go("b_to_epsilon", "B", "eps")
EpsToB     == Go("epsilon_to_b", "eps", "B")
BToEpsOld  == Go("b_to_epsilon_old", "B", "eps_old")
EpsToBOld  == Go("epsilon_to_b_old", "eps_old", "B")
ToUbi      == Go("make_ubi", "B", "ubi")               \* UBI = (2pi)^w (U.B)^-1, the module's own convention
UbiToUEps  == Go("ubi_to_u_and_eps", "ubi", "Ueps")
Next == Len(path) < 4 /\ (BToEps \/ EpsToB \/ BToEpsOld \/ EpsToBOld \/ ToUbi \/ UbiToUEps)
Spec == Init /\ [][Next]_vars

Shape == IsUpper(B0) /\ IsUpper(B) /\ \A i \in 1..3 : B0[i][i] > 0 /\ B[i][i] > 0
(* what makes epsilon_to_b's back-substitution the inverse of b_to_epsilon: X is upper triangular and
   its entries are exactly the combinations the recurrences solve *)
BackSubstitution ==
   LET a == Adj(B) IN
   /\ IsUpper(X) /\ IsUpper(a)
   /\ \A i \in 1..3 : X[i][i] = B0[i][i] * a[i][i]
   /\ X[1][2] = B0[1][1]*a[1][2] + B0[1][2]*a[2][2]
   /\ X[2][3] = B0[2][2]*a[2][3] + B0[2][3]*a[3][3]
   /\ X[1][3] = B0[1][1]*a[1][3] + B0[1][2]*a[2][3] + B0[1][3]*a[3][3]
ZeroStrainIsB0 == (B = B0) => EpsNum = <<0,0,0,0,0,0>>
CayleyProper == LET N == CayleyN(c[3], c[4])  D == c[4]*c[4] + Dot(c[3], c[3]) IN
                MatMul(Transpose(N), N) = MatScale(D*D, I3)

Terminal == Len(path) = 4 \/ rep = "Ueps"
Emit == Terminal =>
  PrintT("@@" \o ToJson([B0 |-> B0, B |-> B, epsnum |-> EpsNum, epsden |-> EpsDen, inrange |-> InRange,
                          gstar |-> Sym6(MatMul(Transpose(B0), B0)),
                          p |-> c[3], q |-> c[4], N |-> CayleyN(c[3], c[4]), D |-> c[4]*c[4] + Dot(c[3], c[3]), path |-> path]))
=============================================================================
