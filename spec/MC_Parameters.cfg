SPECIFICATION Spec
CONSTANTS NameSeq <- SmallNames
          Toks <- SmallToks
          Depth = 4
          ForcedTail <- TailRoundTrip
INVARIANT Emit
INVARIANT TypeOK
INVARIANT RoundTrip
INVARIANT VariedFollows
INVARIANT StepsFollow
INVARIANT StepsizesDomain
PROPERTY VarylistLegal
CHECK_DEADLOCK FALSE
