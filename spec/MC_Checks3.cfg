SPECIFICATION Spec
CONSTANT Depth = 3
CONSTANT Threads = {"main"}
CONSTANT FuncSel <- AllFuncs
CONSTANT AssignSel <- AssignValues
CONSTANT DebugOn = TRUE
INVARIANT Emit
INVARIANT SwitchIsLastValid
INVARIANT NeverRejectsValid
INVARIANT OffMeansOff
INVARIANT OnRejectsInvalid
INVARIANT OneSwitchPerProcess
PROPERTY InvalidAssignKeeps
PROPERTY CallsKeepSwitch
CHECK_DEADLOCK FALSE
