SPECIFICATION Spec
CONSTANT Depth = 3
INVARIANT Emit
INVARIANT SwitchIsLastValid
INVARIANT NeverRejectsValid
INVARIANT OffMeansOff
INVARIANT OnRejectsInvalid
PROPERTY InvalidAssignKeeps
CHECK_DEADLOCK FALSE
