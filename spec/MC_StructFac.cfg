SPECIFICATION Spec
INVARIANT Emit
INVARIANT OrbitStab
INVARIANT ComposePermutes
INVARIANT ExtinctCancels
INVARIANT Friedel
CHECK_DEADLOCK FALSE
