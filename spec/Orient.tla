------------------------------- MODULE Orient -------------------------------
(* Orientation U, metric B and UBI as exact lattice points:                   *)
(*   cell     : integer direct metric tensor G (as in Cell.tla)               *)
(*   rotation : Cayley transform of the integer Rodrigues vector p/q,         *)
(*              active matrix N/D with D = q^2+|p|^2,                         *)
(*              N = (q^2-|p|^2) I + 2 p p' + 2 q [p]x ;                       *)
(*              xfab's U for the Rodrigues vector p/q is the TRANSPOSE N'/D   *)
(*              (passive convention), q = 0 gives the 180 degree rotations.   *)
(* The converters u_to_ubi, ubi_to_u, ubi_to_cell, ubi_to_u_b, ubi_to_rod,    *)
(* rod_to_u are transitions between representations of the same abstract     *)
(* value (G, p/q).  OrientCases (generated): Pairs = set of <<G, p, q>>,      *)
(* Mats = set of general integer 3x3 matrices for the QR split, Hkls.         *)
EXTENDS IntAlg, TLC, Json, OrientCases

CONSTANT Depth

CayleyN(p, q) == LET pp == Dot(p, p)
                     K == << <<0, -p[3], p[2]>>, <<p[3], 0, -p[1]>>, <<-p[2], p[1], 0>> >> IN
                 [i \in 1..3 |-> [j \in 1..3 |-> (IF i = j THEN q*q - pp ELSE 0) + 2*p[i]*p[j] + 2*q*K[i][j]]]
CayleyD(p, q) == q*q + Dot(p, p)

VARIABLES c, rep, path
vars == <<c, rep, path>>
G == c[1]
P == c[2]
Qd == c[3]
Init == /\ c \in Pairs /\ rep = "U" /\ path = <<>>
Go(name, from, to) == rep = from /\ rep' = to /\ path' = Append(path, name) /\ UNCHANGED c
UToUbi    == Go("u_to_ubi", "U", "ubi")
UbiToU    == Go("ubi_to_u", "ubi", "U")
UbiToCell == Go("ubi_to_cell", "ubi", "cell")
UbiToUB   == Go("ubi_to_u_b", "ubi", "UB")
UbToUB    == Go("ub_to_u_b", "U", "UB")                 \* on the product U.B
UbiToRod  == Qd # 0 /\ Go("ubi_to_rod", "ubi", "rod")      \* rotation angle != 180 degrees
RodToU    == Go("rod_to_u", "rod", "U")
URod      == Qd # 0 /\ Go("u_to_rod", "U", "rod")
Next == Len(path) < Depth /\ (UToUbi \/ UbiToU \/ UbiToCell \/ UbiToUB \/ UbToUB \/ UbiToRod \/ RodToU \/ URod)
Spec == Init /\ [][Next]_vars

GM == Sym(G)
N == CayleyN(P, Qd)
D == CayleyD(P, Qd)
(* model-level identities *)
CayleyProper == MatMul(Transpose(N), N) = MatScale(D*D, I3) /\ Det(N) = D*D*D
MetricValid == IsPosDef(GM) /\ 50 * Det(GM) >= G[1]*G[2]*G[3]
AdjugateInverse == MatMul(GM, Adj(GM)) = MatScale(Det(GM), I3)
(* ill-conditioned matrices for the QR split, as exact factors M = P.diag(d).Q with P, Q integer unimodular (their product
   and M'M do not fit 32 bits; the harness multiplies them with unbounded integers and bounds the condition number by
   |M|_F^3 / det M < 1e6 exactly): det M = det P . det Q . d1 d2 d3 > 0 *)
IllValid == \A m \in IllMats : Det(m[1]) * Det(m[3]) = 1 /\ \A i \in 1..3 : m[2][i] > 0
(* general matrices for the QR split: positive determinant, M'M positive definite *)
MatsValid == \A M \in Mats : Det(M) > 0 /\ IsPosDef(MatMul(Transpose(M), M))

Terminal == Len(path) = Depth \/ rep \in {"cell", "UB"}
Emit == Terminal =>
   PrintT("@@" \o ToJson([G |-> G, p |-> P, q |-> Qd, N |-> N, D |-> D, det |-> Det(GM), adj |-> Sym6(Adj(GM)), path |-> path]))
EmitMats == (path = <<>> /\ c = CHOOSE x \in Pairs : TRUE) =>
              PrintT("@@" \o ToJson([mats |-> {<<M, MatMul(Transpose(M), M), Det(M)>> : M \in Mats}, ill |-> IllMats]))
=============================================================================
