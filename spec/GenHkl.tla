------------------------------- MODULE GenHkl -------------------------------
(* Reflection generation (tools/laue genhkl_base, genhkl_unique, genhkl_all). *)
(*                                                                            *)
(* (A) the REQUIREMENT, from the group's own operators:                       *)
(*     Allowed = { h # 0 : Kmin < Q*(h) <= K  /\  ~Extinct(h) }               *)
(* (B) the IMPLEMENTATION-SHAPED machine: Le Page & Gabe traversal exactly as *)
(*     coded - per segment <<start,d1,d2,d3>> three nested loops with the     *)
(*     early exit on sintl > sintlmax*scale, the skip of the very first visit *)
(*     and the extinction test through the 26-slot evaluator - followed by    *)
(*     the expansion by the point-group rotations and inversion.              *)
(* Metrics are integer RECIPROCAL metric tensors <<g11,g22,g33,g23,g13,g12>>; *)
(* Q*(h) = h.G*.h, the shell is Kmin < Q* <= K with the float bounds placed   *)
(* at half-integers by the harness, so no lattice point is ever on a bound.   *)
(* GenHklCases (generated): Instances = sequence of [t, met, K, Kmin].        *)
EXTENDS SgOps, SysAbs, Json, GenHklCases

Q(m, h) == m[1]*h[1]*h[1] + m[2]*h[2]*h[2] + m[3]*h[3]*h[3]
         + 2*m[4]*h[2]*h[3] + 2*m[5]*h[1]*h[3] + 2*m[6]*h[1]*h[2]

(* The 14 segment tables of genhkl_base, transcribed (used to model what the  *)
(* code does and to check that they are sound asymmetric units).              *)
Segments(laue, choice) ==
  CASE laue = "-1" ->
        << << <<0,0,0>>,  <<1,0,0>>,  <<0,1,0>>, <<0,0,1>>  >>,
           << <<-1,0,1>>, <<-1,0,0>>, <<0,1,0>>, <<0,0,1>>  >>,
           << <<-1,1,0>>, <<-1,0,0>>, <<0,1,0>>, <<0,0,-1>> >>,
           << <<0,1,-1>>, <<1,0,0>>,  <<0,1,0>>, <<0,0,-1>> >> >>
    [] laue = "2/m" ->
        << << <<0,0,0>>,  <<1,0,0>>,  <<0,1,0>>, <<0,0,1>> >>,
           << <<-1,0,1>>, <<-1,0,0>>, <<0,1,0>>, <<0,0,1>> >> >>
    [] laue = "mmm" ->
        << << <<0,0,0>>, <<1,0,0>>, <<0,1,0>>, <<0,0,1>> >> >>
    [] laue = "4/mmm" ->
        << << <<0,0,0>>, <<1,0,0>>, <<1,1,0>>, <<0,0,1>> >> >>
    [] laue = "4/m" ->
        << << <<0,0,0>>, <<1,0,0>>, <<1,1,0>>, <<0,0,1>> >>,
           << <<1,2,0>>, <<1,1,0>>, <<0,1,0>>, <<0,0,1>> >> >>
    [] laue = "6/mmm" ->
        << << <<0,0,0>>, <<1,0,0>>, <<1,1,0>>, <<0,0,1>> >> >>
    [] laue = "6/m" ->
        << << <<0,0,0>>, <<1,0,0>>, <<1,1,0>>, <<0,0,1>> >>,
           << <<1,2,0>>, <<0,1,0>>, <<1,1,0>>, <<0,0,1>> >> >>
    [] laue = "-3m1" ->
        << << <<0,0,0>>, <<1,0,0>>, <<1,1,0>>, <<0,0,1>> >>,
           << <<0,1,1>>, <<0,1,0>>, <<1,1,0>>, <<0,0,1>> >> >>
    [] laue = "-31m" ->
        << << <<0,0,0>>,  <<1,0,0>>, <<1,1,0>>, <<0,0,1>>  >>,
           << <<1,1,-1>>, <<1,0,0>>, <<1,1,0>>, <<0,0,-1>> >> >>
    [] laue = "-3" /\ choice # "rhombohedral" ->
        << << <<0,0,0>>, <<1,0,0>>, <<1,1,0>>,  <<0,0,1>> >>,
           << <<1,2,0>>, <<1,1,0>>, <<0,1,0>>,  <<0,0,1>> >>,
           << <<0,1,1>>, <<0,1,0>>, <<-1,1,0>>, <<0,0,1>> >> >>
    [] laue = "-3m" /\ choice = "rhombohedral" ->
        << << <<0,0,0>>, <<1,0,0>>,  <<1,0,-1>>, <<1,1,1>> >>,
           << <<1,1,0>>, <<1,0,-1>>, <<0,0,-1>>, <<1,1,1>> >> >>
    [] laue = "-3" /\ choice = "rhombohedral" ->
        << << <<0,0,0>>,   <<1,0,0>>,  <<1,0,-1>>, <<1,1,1>>    >>,
           << <<1,1,0>>,   <<1,0,-1>>, <<0,0,-1>>, <<1,1,1>>    >>,
           << <<0,-1,-2>>, <<1,0,0>>,  <<1,0,-1>>, <<-1,-1,-1>> >>,
           << <<1,0,-2>>,  <<1,0,-1>>, <<0,0,-1>>, <<-1,-1,-1>> >> >>
    [] laue = "m-3m" ->
        << << <<0,0,0>>, <<1,0,0>>, <<1,1,0>>, <<1,1,1>> >> >>
    [] laue = "m-3" ->
        << << <<0,0,0>>, <<1,0,0>>, <<1,1,0>>, <<1,1,1>> >>,
           << <<1,2,0>>, <<0,1,0>>, <<1,1,0>>, <<1,1,1>> >> >>
    [] OTHER -> << >>

---------------------------------------------------------------------------
VARIABLES inst,    \* index into Instances
          ext,     \* how the machine decides extinction: "sysabs" (as coded) or "operators"
          seg, pc, hlast, hsave, hsave1, first,
          H,       \* reflections accepted so far (the asymmetric-unit list)
          dup      \* reflections accepted more than once
vars == <<inst, ext, seg, pc, hlast, hsave, hsave1, first, H, dup>>

I == Instances[inst]
Tb == Tables[I.t]
Segs == Segments(Tb.Laue, Tb.cell_choice)
Seg == Segs[seg]
Scale121 == Tb.Laue = "-3" /\ Tb.cell_choice = "rhombohedral"     \* sintl_scale = 1.1

InShell(h) == LET q == Q(I.met, h) IN q > I.Kmin /\ q <= I.K
(* early exit: sintl(h) > sintlmax * sintl_scale ; bounds at half-integers *)
Over(h) == IF Scale121 THEN 200 * Q(I.met, h) > 121 * (2 * I.K + 1) ELSE Q(I.met, h) > I.K

Absent(mode, h) == IF mode = "sysabs" THEN SysAbs(h, Tb.syscond, Tb.crystal_system, Tb.cell_choice) # 0
                                      ELSE Extinct(Tb, h)

Init == /\ inst \in 1..Len(Instances)
        /\ ext \in {"sysabs", "operators"}
        /\ seg = 1 /\ pc = IF Len(Segs) = 0 THEN "nolaue" ELSE "h"
        /\ hlast = IF Len(Segs) = 0 THEN <<0,0,0>> ELSE Segs[1][1]
        /\ hsave = hlast /\ hsave1 = hlast
        /\ first = TRUE /\ H = {} /\ dup = {}

(* innermost loop: test HLAST (except the very first visit), step along d1 *)
StepH == /\ pc = "h"
         /\ LET take == ~first /\ ~Absent(ext, hlast) /\ InShell(hlast) IN
              /\ H' = IF take THEN H \cup {hlast} ELSE H
              /\ dup' = IF take /\ hlast \in H THEN dup \cup {hlast} ELSE dup
         /\ first' = FALSE
         /\ LET hn == VAdd(hlast, Seg[2]) IN
              IF ~Over(hn) THEN hlast' = hn /\ pc' = "h" ELSE hlast' = hlast /\ pc' = "k"
         /\ UNCHANGED <<inst, ext, seg, hsave, hsave1>>

(* middle loop: next row *)
StepK == /\ pc = "k"
         /\ LET hs == VAdd(hsave, Seg[3]) IN
              hsave' = hs /\ hlast' = hs /\ pc' = IF Over(hs) THEN "l" ELSE "h"
         /\ UNCHANGED <<inst, ext, seg, hsave1, first, H, dup>>

(* outer loop: next layer *)
StepL == /\ pc = "l"
         /\ LET hs == VAdd(hsave1, Seg[4]) IN
              hsave1' = hs /\ hsave' = hs /\ hlast' = hs /\ pc' = IF Over(hs) THEN "s" ELSE "h"
         /\ UNCHANGED <<inst, ext, seg, first, H, dup>>

NextSegment == /\ pc = "s"
               /\ IF seg < Len(Segs)
                    THEN /\ seg' = seg + 1 /\ pc' = "h"
                         /\ hlast' = Segs[seg+1][1] /\ hsave' = Segs[seg+1][1] /\ hsave1' = Segs[seg+1][1]
                    ELSE /\ pc' = "done" /\ UNCHANGED <<seg, hlast, hsave, hsave1>>
               /\ UNCHANGED <<inst, ext, first, H, dup>>

Next == StepH \/ StepK \/ StepL \/ NextSegment
Spec == Init /\ [][Next]_vars /\ WF_vars(Next)

Terminates == <>(pc \in {"done", "nolaue"})

---------------------------------------------------------------------------
(* Requirement side *)

(* h_i^2 <= Q*(h) . (G*^-1)_ii : a box that contains the ellipsoid Q* <= K *)
RECURSIVE ISqrt(_, _)
ISqrt(n, r) == IF (r+1)*(r+1) > n THEN r ELSE ISqrt(n, r+1)
BoxBound(m, k, i) == LET G == Sym(m)  a == Adj(G)  d == Det(G) IN ISqrt((k * a[i][i]) \div d, 0) + 1
Box(m, k) == LET b == [i \in 1..3 |-> BoxBound(m, k, i)] IN
               {<<x, y, z>> : x \in -b[1]..b[1], y \in -b[2]..b[2], z \in -b[3]..b[3]}

(* a segment's cone (no early exit taken): start + i d1 + j d2 + k d3, i,j,k >= 0.          *)
(* Membership is decided with the adjugate of the direction matrix (exact, any determinant). *)
InCone(s, h) == LET D == Transpose(<<s[2], s[3], s[4]>>)      \* columns d1 d2 d3
                    d == Det(D)
                    w == MatVec(Adj(D), VSub(h, s[1])) IN
                  /\ d # 0
                  /\ \A i \in 1..3 : w[i] * Sgn(d) >= 0 /\ w[i] % Abs(d) = 0
ConesOf(h) == {s \in 1..Len(Segs) : InCone(Segs[s], h)}

(* C06: the unit list has exactly one member of every Laue family of Allowed, nothing else;
   C05: expanding it by the point group and inversion gives exactly Allowed *)
UnitSound(U, A) == /\ U \subseteq A
                   /\ \A h \in A : Cardinality(LaueOrbit(Tb, h) \cap U) = 1
                   /\ UNION {LaueOrbit(Tb, h) : h \in U} = A

Judge ==
  LET box     == Box(I.met, I.K) \ {<<0,0,0>>}
      inK     == {h \in box : Q(I.met, h) <= I.K}
      shell   == {h \in inK : Q(I.met, h) > I.Kmin}
      extinct == {h \in inK : Extinct(Tb, h)}                       \* by the group's own operators
      absent  == {h \in inK : SysAbs(h, Tb.syscond, Tb.crystal_system, Tb.cell_choice) # 0}
      reach   == {h \in inK : ConesOf(h) # {}}                      \* what the traversal can visit
      allowed == shell \ extinct
      unitOps == (reach \cap shell) \ extinct
      unitSys == (reach \cap shell) \ absent
  IN [allowed |-> allowed,
      unit_ops |-> unitOps, unit_ops_sound |-> UnitSound(unitOps, allowed),
      unit_sys |-> unitSys,
      overlap |-> {h \in reach \cap shell : Cardinality(ConesOf(h)) > 1},
      (* table-versus-operators on everything the traversal can visit, with the slot that fired *)
      disagree |-> {<<h, SysAbs(h, Tb.syscond, Tb.crystal_system, Tb.cell_choice)>> :
                       h \in {g \in reach : (g \in absent) # (g \in extinct)}},
      (* conformance of the evaluator model: the type numbers the model predicts for sysabs and
         sysabs_unique on every visited point, replayed into the real functions *)
      types |-> {<<h, SysAbs(h, Tb.syscond, Tb.crystal_system, Tb.cell_choice), SysAbsUnique(h, Tb.syscond)>> :
                       h \in reach}]

Emit == (pc \in {"done", "nolaue"}) =>
   PrintT("@@" \o ToJson(
     IF ext = "operators"
       THEN [inst |-> inst, ext |-> ext, pc |-> pc, H |-> H, dup |-> dup]
       ELSE [inst |-> inst, ext |-> ext, pc |-> pc, H |-> H, dup |-> dup, judge |-> Judge]))
=============================================================================
