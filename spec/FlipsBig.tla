------------------------------ MODULE FlipsBig ------------------------------
(* Large non-square detectors: only the coordinate requirement is evaluated *)
(* (corners and seeded interior points); the harness looks the real         *)
(* trans_orientation result up at those indices.  FlipsBigCases is          *)
(* generated: Shapes = set of <<W, H, set of <<x,y>>>>.                     *)
EXTENDS Integers, Sequences, TLC, Json, FiniteSets, FlipsBigCases
VARIABLES bo, bw, bh, pts, done
F == INSTANCE Flips WITH MaxW <- 1, MaxH <- 1, f <- "trans", phase <- "forward", prog <- <<>>,
                         a <- [n0 |-> 0, n1 |-> 0, d |-> <<>>], o <- bo, W <- bw, H <- bh
Init == /\ bo \in F!ValidOrients
        /\ \E sh \in Shapes : bw = sh[1] /\ bh = sh[2] /\ pts = sh[3]
        /\ done = FALSE
Next == ~done /\ done' = TRUE /\ UNCHANGED <<bo, bw, bh, pts>>
Spec == Init /\ [][Next]_<<bo, bw, bh, pts, done>>
InRange == \A p \in pts : LET q == F!XyToDetyz(bo, p, bw, bh, 1) IN
              /\ q[1] >= 0 /\ q[2] >= 0
              /\ IF F!Abs(bo[1]) = 1 THEN q[1] < bh /\ q[2] < bw ELSE q[1] < bw /\ q[2] < bh
              /\ F!DetyzToXy(bo, q, bw, bh, 1) = p
              /\ F!CodeDetyzToXy(bo, q, bw, bh, 1) = p
Emit == done => PrintT("@@" \o ToJson([o |-> bo, W |-> bw, H |-> bh,
                          map |-> {<<p, F!XyToDetyz(bo, p, bw, bh, 1)>> : p \in pts}]))
=============================================================================
