SPECIFICATION Spec
INVARIANT Emit
INVARIANT InRange
CHECK_DEADLOCK FALSE
