SPECIFICATION Spec
INVARIANT Emit
INVARIANT CayleyProper
CHECK_DEADLOCK FALSE
