----------------------------- MODULE ReduceCell -----------------------------
(* tools/laue reduce_cell on integer direct metric tensors G.                 *)
(* The machine follows the code: enumerate the lattice vectors (i,j,k) in     *)
(* arange(-3,3)^3, sort them by length, take the shortest, then the first     *)
(* one not collinear with it, then - continuing from there - the first one    *)
(* with a positive triple product.  Lengths are exact (v'Gv), so ties are     *)
(* exact; the order numpy's argsort gives to equal lengths is NOT part of     *)
(* the contract and is left nondeterministic: every linear extension of the   *)
(* length order is allowed, which yields a set of possible outcomes.          *)
(* Requirement: every outcome is a basis of the same lattice (|det| = 1) and  *)
(* the returned cell is the cell of the metric V'GV of one of them.           *)
(* ReduceCases (generated): Metrics = set of <<6-tuple, uvw>> (uvw = 3 is the  *)
(* default search range of the code; 2 and 4 exercise the optional argument). *)
EXTENDS IntAlg, TLC, Json, ReduceCases

VARIABLES G, uvw, pc, v0, v1, v2, afterTie
vars == <<G, uvw, pc, v0, v1, v2, afterTie>>
Range == (-uvw)..(uvw - 1)                \* n.arange(-uvw, uvw)
Cands == {<<i, j, k>> : i \in Range, j \in Range, k \in Range}
GM == Sym(G)
Len2(v) == QuadForm(GM, v)
NonZero == Cands \ {<<0,0,0>>}
Collinear(a, b) == Cross(a, b) = <<0,0,0>>
Triple(a, b, w) == Dot(Cross(a, b), w)          \* kryds . tmp with kryds = cross(v1, v0)

Init == (\E c \in Metrics : G = c[1] /\ uvw = c[2]) /\ pc = "sorted" /\ v0 = <<0,0,0>> /\ v1 = <<0,0,0>> /\ v2 = <<0,0,0>> /\ afterTie = FALSE

MinOf(S) == CHOOSE m \in S : \A x \in S : m <= x
Shortest(S) == LET m == MinOf({Len2(w) : w \in S}) IN {w \in S : Len2(w) = m}
(* res[1]: any vector of minimal non-zero length (res[0] is the zero vector) *)
PickFirst == /\ pc = "sorted"
             /\ \E w \in Shortest(NonZero) : v0' = w
             /\ pc' = "first" /\ UNCHANGED <<G, uvw, v1, v2, afterTie>>
(* first vector in sorted order that is not collinear with v0 *)
PickNonCollinear ==
   /\ pc = "first"
   /\ \E w \in Shortest({x \in NonZero : ~Collinear(x, v0)}) : v1' = w
   /\ pc' = "second" /\ UNCHANGED <<G, uvw, v0, v2, afterTie>>
(* continuing from the position of v1: the first vector with positive triple product.  Vectors exactly as long
   as v1 may sit before or after it in the sorted array - both are explored. *)
Valid(w) == Triple(v1, v0, w) > 0 /\ Len2(w) >= Len2(v1)
PickNonCoplanar ==
   /\ pc = "second"
   /\ \E skipTies \in BOOLEAN :
        LET S == {w \in NonZero : Valid(w) /\ (skipTies => Len2(w) > Len2(v1))} IN
          /\ S # {}
          /\ \E w \in Shortest(S) : v2' = w
          /\ afterTie' = skipTies
   /\ pc' = "done" /\ UNCHANGED <<G, uvw, v0, v1>>
(* no third vector in range: the code would return a cell with a zero edge *)
NoThird == /\ pc = "second" /\ {w \in NonZero : Valid(w)} = {}
           /\ pc' = "failed" /\ UNCHANGED <<G, uvw, v0, v1, v2, afterTie>>
Next == PickFirst \/ PickNonCollinear \/ PickNonCoplanar \/ NoThird
Spec == Init /\ [][Next]_vars /\ WF_vars(Next)

V == Transpose(<<v0, v1, v2>>)                    \* columns v0 v1 v2
NewMetric == MatMul(Transpose(V), MatMul(GM, V))
MetricValid == IsPosDef(GM)
(* the requirement on every outcome: a basis of the same lattice, same volume *)
Primitive == pc = "done" => (Abs(Det(V)) = 1 /\ Det(NewMetric) = Det(GM))
Terminates == <>(pc \in {"done", "failed"})
Emit == pc \in {"done", "failed"} =>
   PrintT("@@" \o ToJson([G |-> G, uvw |-> uvw, pc |-> pc, V |-> <<v0, v1, v2>>, detV |-> Det(V), M |-> Sym6(NewMetric), detG |-> Det(GM)]))
=============================================================================
