-------------------------------- MODULE Cell --------------------------------
(* Unit cells as exact lattice points: the direct metric tensor G is an      *)
(* integer symmetric positive definite matrix <<g11,g22,g33,g23,g13,g12>>.   *)
(* Every representation xfab can hold (cell parameters, A, B, A^-1, the      *)
(* reciprocal cell) is a function of G; the public converters are the        *)
(* transitions between representations.  The abstract value G is carried     *)
(* unchanged along every path - the replay checks that the CODE does so, by  *)
(* projecting each float result back to the metric:                          *)
(*    A |-> A'A = u G          B |-> B'B = (2pi)^2w adj G / (u det G)        *)
(*    V^2 = u^3 det G          sintl^2(h) = h.adjG.h / (4 u det G)           *)
(* (u = scale factor chosen by the harness, w = 1 for tools, 0 for laue).    *)
EXTENDS IntAlg, TLC, Json, CellCases     \* CellCases: Metrics (set of 6-tuples) or {} , Hkls (set of triples)

CONSTANTS Diag, OffMax, Depth

Offs == (-OffMax)..OffMax
AllMetrics == {<<a, b, c, d, e, f>> : a \in Diag, b \in Diag, c \in Diag, d \in Offs, e \in Offs, f \in Offs}
(* the property's quantifier: positive definite and bounded away from degenerate,
   1 - ca^2 - cb^2 - cg^2 + 2 ca cb cg >= 0.02  <=>  50 det G >= g11 g22 g33 *)
Valid(m) == IsPosDef(Sym(m)) /\ 50 * Det(Sym(m)) >= m[1] * m[2] * m[3]
Lattice == Metrics \cup {m \in AllMetrics : Valid(m)}        \* explicit metrics (generated) plus the box (empty when Diag = {})

VARIABLES G, rep, path
vars == <<G, rep, path>>

Init == G \in Lattice /\ rep = "cell" /\ path = <<>>

Go(name, from, to) == rep = from /\ rep' = to /\ path' = Append(path, name) /\ UNCHANGED G
FormA    == Go("form_a_mat", "cell", "A")
FormB    == Go("form_b_mat", "cell", "B")
FormAInv == Go("form_a_mat_inv", "cell", "Ainv")
Invert   == Go("cell_invert", "cell", "recip") \/ Go("cell_invert", "recip", "cell")
AToCell  == Go("a_to_cell", "A", "cell")
BToCell  == Go("b_to_cell", "B", "cell")
(* the A matrix of the reciprocal cell carries the reciprocal metric *)
FormAStar == Go("form_a_mat", "recip", "Astar")
AStarToRecip == Go("a_to_cell", "Astar", "recip")

Next == Len(path) < Depth /\ (FormA \/ FormB \/ FormAInv \/ Invert \/ AToCell \/ BToCell \/ FormAStar \/ AStarToRecip)
Spec == Init /\ [][Next]_vars

GM == Sym(G)
(* model-level identities the projections rest on *)
AdjugateInverse == MatMul(GM, Adj(GM)) = MatScale(Det(GM), I3)
ReciprocalOfReciprocal == Adj(Adj(GM)) = MatScale(Det(GM), GM)        \* cell_invert o cell_invert = id
RecipPosDef == IsPosDef(Adj(GM))
QPositive == \A h \in Hkls : h # <<0,0,0>> => QuadForm(Adj(GM), h) > 0
ValidStays == Valid(G)

Terminal == Len(path) = Depth \/ rep = "Ainv"
Emit == Terminal =>
   PrintT("@@" \o ToJson([G |-> G, path |-> path, det |-> Det(GM), adj |-> Sym6(Adj(GM)),
                           q |-> {<<h, QuadForm(Adj(GM), h)>> : h \in Hkls}]))
=============================================================================
