------------------------------- MODULE SgOps -------------------------------
(* Operators on xfab's space-group tables (no state): group structure,     *)
(* the laws of C04, orbits, extinction, Laue orbits.                       *)
(* XfabTables is GENERATED into the check's work directory from the tree    *)
(* under test (harness/export.py) and defines                              *)
(*   Tables : sequence of records no, setting, name (character codes),     *)
(*            crystal_system, Laue, nsymop, nuniq, cell_choice, syscond,   *)
(*            rot, trans (24ths), bad, own_no                               *)
(*   Dict   : sequence of records key (character codes), no                *)
(* It is EXTENDed rather than bound through CONSTANT ... <- because TLC    *)
(* re-evaluates an overridden constant on every reference (measured:       *)
(* 3 min instead of 2 s), while a literal definition is evaluated once.    *)
(* Translations are integers in 24ths (24 = lcm of every tabulated         *)
(* translation denominator: 2,3,4,6,8).                                    *)
EXTENDS IntAlg, TLC, XfabTables

T24 == 24

---------------------------------------------------------------------------
(* Group structure *)

Op(tb, i) == [r |-> tb.rot[i], t |-> tb.trans[i]]
NOps(tb) == Len(tb.rot)
Ops(tb) == {Op(tb, i) : i \in 1..NOps(tb)}
Rots(tb) == {tb.rot[i] : i \in 1..NOps(tb)}

(* (R1,t1)(R2,t2) : x -> R1(R2 x + t2) + t1 *)
Compose(a, b) == [r |-> MatMul(a.r, b.r), t |-> VMod(VAdd(MatVec(a.r, b.t), a.t), T24)]
Identity == [r |-> I3, t |-> <<0,0,0>>]
ApplyOp(o, p, N) == VMod(VAdd(MatVec(o.r, p), VScale(N \div T24, o.t)), N)   \* positions in 1/N, 24 | N

LaueOrder(l) ==
  CASE l = "-1" -> 2   [] l = "2/m" -> 4  [] l = "mmm" -> 8   [] l = "4/m" -> 8
    [] l = "4/mmm" -> 16 [] l = "-3" -> 6  [] l = "-3m" -> 12  [] l = "-3m1" -> 12
    [] l = "-31m" -> 12 [] l = "6/m" -> 12 [] l = "6/mmm" -> 24 [] l = "m-3" -> 24
    [] l = "m-3m" -> 48 [] OTHER -> 0

(* Crystal systems consistent with a Laue class *)
SystemOfLaue(l) ==
  CASE l = "-1" -> {"triclinic"} [] l = "2/m" -> {"monoclinic"} [] l = "mmm" -> {"orthorhombic"}
    [] l \in {"4/m","4/mmm"} -> {"tetragonal"}
    [] l \in {"-3","-3m","-3m1","-31m"} -> {"trigonal"}
    [] l \in {"6/m","6/mmm"} -> {"hexagonal"}
    [] l \in {"m-3","m-3m"} -> {"cubic"} [] OTHER -> {}

(* Basis of the linear space of metric tensors conforming to the crystal   *)
(* system and setting.  "R preserves the metric of every conforming cell"  *)
(* is exactly: R' E R = E for every basis element E.                       *)
MetricBasis(sys, choice) ==
  CASE sys = "triclinic" ->
         {Sym(<<1,0,0,0,0,0>>), Sym(<<0,1,0,0,0,0>>), Sym(<<0,0,1,0,0,0>>),
          Sym(<<0,0,0,1,0,0>>), Sym(<<0,0,0,0,1,0>>), Sym(<<0,0,0,0,0,1>>)}
    [] sys = "monoclinic" ->      \* unique axis b
         {Sym(<<1,0,0,0,0,0>>), Sym(<<0,1,0,0,0,0>>), Sym(<<0,0,1,0,0,0>>), Sym(<<0,0,0,0,1,0>>)}
    [] sys = "orthorhombic" ->
         {Sym(<<1,0,0,0,0,0>>), Sym(<<0,1,0,0,0,0>>), Sym(<<0,0,1,0,0,0>>)}
    [] sys = "tetragonal" -> {Sym(<<1,1,0,0,0,0>>), Sym(<<0,0,1,0,0,0>>)}
    [] sys \in {"trigonal","hexagonal"} /\ choice # "rhombohedral" ->
         {Sym(<<2,2,0,0,0,-1>>), Sym(<<0,0,1,0,0,0>>)}      \* a = b, gamma = 120
    [] sys = "trigonal" /\ choice = "rhombohedral" ->
         {Sym(<<1,1,1,0,0,0>>), Sym(<<0,0,0,1,1,1>>)}       \* a = b = c, alpha = beta = gamma
    [] sys = "cubic" -> {Sym(<<1,1,1,0,0,0>>)}
    [] OTHER -> {}

(* The Laue group NAMED by the label, in the axes of the setting: closure of generators.  The label is what genhkl_all /   *)
(* genhkl_unique use to choose the asymmetric unit, so the rotations of the table (with the inversion added) must be exactly *)
(* this group - the order alone does not tell -3m1 from -31m (two-fold axes along [110] or along [1-10]).                      *)
RECURSIVE Closure(_)
Closure(S) == LET S2 == S \cup {MatMul(a, b) : a \in S, b \in S} IN IF S2 = S THEN S ELSE Closure(S2)
Inv3   == MatNeg(I3)
Rot2y  == <<<<-1,0,0>>, <<0,1,0>>, <<0,0,-1>>>>
Rot2z  == <<<<-1,0,0>>, <<0,-1,0>>, <<0,0,1>>>>
Rot2x  == <<<<1,0,0>>, <<0,-1,0>>, <<0,0,-1>>>>
Rot4z  == <<<<0,-1,0>>, <<1,0,0>>, <<0,0,1>>>>
Rot3zH == <<<<0,-1,0>>, <<1,-1,0>>, <<0,0,1>>>>          \* hexagonal axes: x,y,z -> -y,x-y,z
Rot6zH == <<<<1,-1,0>>, <<1,0,0>>, <<0,0,1>>>>           \* x-y,x,z
Rot2d  == <<<<0,1,0>>, <<1,0,0>>, <<0,0,-1>>>>           \* two-fold along [110]:   y,x,-z
Rot2e  == <<<<0,-1,0>>, <<-1,0,0>>, <<0,0,-1>>>>         \* two-fold along [1-10]: -y,-x,-z
Rot3d  == <<<<0,0,1>>, <<1,0,0>>, <<0,1,0>>>>            \* three-fold along [111]:  z,x,y
LaueGenerators(l, choice) ==
  CASE l = "-1" -> {Inv3}
    [] l = "2/m" -> {Inv3, Rot2y}
    [] l = "mmm" -> {Inv3, Rot2z, Rot2y}
    [] l = "4/m" -> {Inv3, Rot4z}
    [] l = "4/mmm" -> {Inv3, Rot4z, Rot2x}
    [] l = "-3" /\ choice # "rhombohedral" -> {Inv3, Rot3zH}
    [] l = "-3" /\ choice = "rhombohedral" -> {Inv3, Rot3d}
    [] l \in {"-3m", "-3m1"} /\ choice # "rhombohedral" -> {Inv3, Rot3zH, Rot2d}
    [] l = "-3m" /\ choice = "rhombohedral" -> {Inv3, Rot3d, Rot2e}
    [] l = "-31m" -> {Inv3, Rot3zH, Rot2e}
    [] l = "6/m" -> {Inv3, Rot6zH}
    [] l = "6/mmm" -> {Inv3, Rot6zH, Rot2d}
    [] l = "m-3" -> {Inv3, Rot3d, Rot2z}
    [] l = "m-3m" -> {Inv3, Rot3d, Rot4z}
    [] OTHER -> {}
LaueGroup(l, choice) == Closure(LaueGenerators(l, choice) \cup {I3})

(* Screw axes along c named by the Hermann-Mauguin symbol (International Tables A, reference data of this specification):     *)
(* <<number, N, k>> means the symbol of that space group contains N_k, so the counter-clockwise N-fold rotation about c must    *)
(* occur with the translation k/N along c (an intrinsic component, independent of the origin; centring may add 1/2).  This is   *)
(* what distinguishes the enantiomorphic pairs (P41 / P43, P31 / P32, P61 / P65, P62 / P64, ...), which are both groups of the  *)
(* same order, with the same Laue group, metric and reflection conditions.                                                     *)
Screws == {<<76,4,1>>, <<77,4,2>>, <<78,4,3>>, <<80,4,1>>, <<84,4,2>>, <<86,4,2>>, <<88,4,1>>, <<91,4,1>>, <<92,4,1>>, <<93,4,2>>,
           <<94,4,2>>, <<95,4,3>>, <<96,4,3>>, <<98,4,1>>, <<101,4,2>>, <<102,4,2>>, <<105,4,2>>, <<106,4,2>>, <<109,4,1>>,
           <<110,4,1>>, <<131,4,2>>, <<132,4,2>>, <<133,4,2>>, <<134,4,2>>, <<135,4,2>>, <<136,4,2>>, <<137,4,2>>, <<138,4,2>>,
           <<141,4,1>>, <<142,4,1>>, <<144,3,1>>, <<145,3,2>>, <<151,3,1>>, <<152,3,1>>, <<153,3,2>>, <<154,3,2>>,
           <<169,6,1>>, <<170,6,5>>, <<171,6,2>>, <<172,6,4>>, <<173,6,3>>, <<176,6,3>>, <<178,6,1>>, <<179,6,5>>, <<180,6,2>>,
           <<181,6,4>>, <<182,6,3>>, <<185,6,3>>, <<186,6,3>>, <<193,6,3>>, <<194,6,3>>,
           <<208,4,2>>, <<210,4,1>>, <<212,4,3>>, <<213,4,1>>, <<214,4,1>>}
RotN(k) == CASE k = 3 -> Rot3zH [] k = 4 -> Rot4z [] k = 6 -> Rot6zH
ScrewLaw(tb) == \A sc \in Screws : (sc[1] = tb.no /\ tb.cell_choice # "rhombohedral") =>
   \E i \in 1..NOps(tb) : tb.rot[i] = RotN(sc[2]) /\ (tb.trans[i][3] - (T24 \div sc[2]) * sc[3]) % T24 = 0
(* ... and the symbol itself carries it: the name of a listed group shows N followed by k right after the lattice letter *)
NameCore(tb) == SelectSeq(tb.name, LAMBDA c : c \notin {9, 10, 11, 12, 13, 32})
ScrewInName(tb) == \A sc \in Screws : sc[1] = tb.no =>
   LET nm == NameCore(tb) IN Len(nm) >= 3 /\ nm[2] = 48 + sc[2] /\ nm[3] = 48 + sc[3]

PreservesMetric(R, E) == MatMul(Transpose(R), MatMul(E, R)) = E

CentringTranslations(tb) == {o.t : o \in {p \in Ops(tb) : p.r = I3}}

(* The laws, each named so that a violation is localised. *)
Laws(tb) ==
  LET ops == Ops(tb)  rots == Rots(tb)  n == NOps(tb)  basis == MetricBasis(tb.crystal_system, tb.cell_choice) IN
  [ wellformed   |-> /\ Len(tb.bad) = 0 /\ Len(tb.trans) = n /\ Len(tb.syscond) = 26
                     /\ \A i \in 1..n : Abs(Det(tb.rot[i])) = 1,
    count        |-> n = tb.nsymop,
    identity     |-> Identity \in ops,
    nodup        |-> Cardinality(ops) = n,
    closed       |-> \A a \in ops : \A b \in ops : Compose(a, b) \in ops,
    inverses     |-> \A a \in ops : \E b \in ops : Compose(a, b) = Identity,
    nuniq        |-> /\ tb.nuniq \in 1..n
                     /\ Cardinality({tb.rot[i] : i \in 1..Min(tb.nuniq, n)}) = tb.nuniq
                     /\ {tb.rot[i] : i \in 1..Min(tb.nuniq, n)} = rots,
    centring     |-> tb.nsymop = tb.nuniq * Cardinality(CentringTranslations(tb)),
    laue         |-> /\ LaueOrder(tb.Laue) > 0
                     /\ Cardinality(rots \cup {MatNeg(R) : R \in rots}) = LaueOrder(tb.Laue),
    lauegroup    |-> rots \cup {MatNeg(R) : R \in rots} = LaueGroup(tb.Laue, tb.cell_choice),
    screw        |-> ScrewLaw(tb) /\ ScrewInName(tb),
    distinct     |-> \A j \in 1..Len(Tables) : (Tables[j].no # tb.no) => (Ops(Tables[j]) # ops),
    system       |-> tb.crystal_system \in SystemOfLaue(tb.Laue),
    metric       |-> /\ basis # {}
                     /\ \A R \in rots : \A E \in basis : PreservesMetric(R, E),
    number       |-> tb.own_no = tb.no /\ tb.no \in 1..230 ]

LawNames == {"wellformed","count","identity","nodup","closed","inverses","nuniq","centring",
             "laue","lauegroup","screw","distinct","system","metric","number"}
Failed(tb) == LET l == Laws(tb) IN {nm \in LawNames : ~l[nm]}


---------------------------------------------------------------------------
(* Orbits of positions (fractional coordinates p/N, 24 | N) *)
Images(tb, p, N) == {ApplyOp(Op(tb, i), p, N) : i \in 1..NOps(tb)}
Mult(tb, p, N) == Cardinality(Images(tb, p, N))
(* orbit-stabiliser: every orbit point has exactly nsymop / Mult pre-images *)
PreImages(tb, p, N, q) == {i \in 1..NOps(tb) : ApplyOp(Op(tb, i), p, N) = q}
OrbitStabiliser(tb, p, N) ==
   \A q \in Images(tb, p, N) : Cardinality(PreImages(tb, p, N, q)) * Mult(tb, p, N) = NOps(tb)

(* Reflections: h is a row vector, hR = h.R *)
Extinct(tb, h) == \E i \in 1..NOps(tb) : VecMat(h, tb.rot[i]) = h /\ Dot(h, tb.trans[i]) % T24 # 0
PointRots(tb) == {tb.rot[i] : i \in 1..tb.nuniq}
LaueOrbit(tb, h) == {VecMat(h, R) : R \in PointRots(tb)} \cup {VNeg(VecMat(h, R)) : R \in PointRots(tb)}

HasTable(no, setting) == \E i \in 1..Len(Tables) : Tables[i].no = no /\ Tables[i].setting = setting
TableIndex(no, setting) == CHOOSE i \in 1..Len(Tables) : Tables[i].no = no /\ Tables[i].setting = setting
=============================================================================
