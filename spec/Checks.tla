------------------------------- MODULE Checks -------------------------------
(* The package-wide input-check switch xfab.CHECKS.activated and the guard  *)
(* sites `if CHECKS.activated: checks._check_...` of the public API.        *)
(*                                                                          *)
(* switch  : the state of the switch                                        *)
(* out     : outcome of the last call                                       *)
(*           "ok" | "ValueError"            for assignments                 *)
(*           "CheckError"                   the check's own ValueError      *)
(*           "returns"                      valid input: value returned     *)
(*           "unchecked"                    invalid input let through       *)
(* hist    : the behaviour so far (events with expected outcome) - this is  *)
(*           what is replayed into the implementation                       *)
EXTENDS Integers, Sequences, FiniteSets, TLC, Json

CONSTANTS Depth,        \* behaviours of exactly this many API events are emitted
          DebugOn,      \* FALSE models `python -O`: the switch then reads False whatever was assigned (the __debug__ coupling)
          Threads,      \* threads of the process that issue events.  There is ONE switch per process ("package-wide"): the thread an
                        \* event comes from appears in the event and nowhere in its effect
          FuncSel,      \* the functions whose calls are events in this configuration (AllFuncs for everything)
          AssignSel     \* the values assigned in this configuration (AssignValues for everything)

(* values a user may assign: only the Python singletons True / False are valid *)
AssignValues == {"True", "False", "int0", "int1", "None", "str_yes", "np_true", "np_false",
                 "other_truthy", "other_falsy"}
ValidAssign == {"True", "False"}

Modules == {"tools", "laue"}
(* guarded API -> input classes; Rejects = the classes the function's guard must refuse *)
RotClasses == {"valid64", "valid32", "nonorth", "detm1", "scaled"}
Classes(f) == CASE f \in {"u_to_euler", "u_to_rod", "u_to_ubi"} -> RotClasses
                [] f = "euler_to_u" -> {"valid", "negative", "above2pi"}
                [] f \in {"ubi_to_u", "ubi_to_u_and_eps", "ubi_to_u_b"} -> {"validubi", "lefthanded"}
                   (* composite: ubi_to_u then u_to_rod.  "halfturn" = a valid right-handed UBI whose orientation is a rotation by
                      180 degrees: no Rodrigues vector exists, the function leaves through its ordinary ValueError - NOT a check's -
                      whatever the switch says, and the switch is what it was *)
                [] f = "ubi_to_rod" -> {"validubi", "lefthanded", "halfturn"}
                [] f = "ub_to_u_b" -> {"validub", "negdet"}
                [] f = "Umis" -> {"valid64", "valid32", "nonorth", "nonorth2", "detm1"}
ValidClasses == {"valid64", "valid32", "valid", "validubi", "validub"}
Unguarded == {"halfturn"}          \* outside the function's domain, but no check's business
Rejects(f) == (Classes(f) \ ValidClasses) \ Unguarded
Funcs == {"u_to_euler", "u_to_rod", "u_to_ubi", "euler_to_u", "ubi_to_u", "ubi_to_u_and_eps", "ub_to_u_b", "ubi_to_rod", "ubi_to_u_b"}

Calls == {[m |-> m, f |-> f, c |-> c] : m \in Modules, f \in Funcs, c \in RotClasses \cup
              {"valid", "negative", "above2pi", "validubi", "lefthanded", "validub", "negdet", "halfturn"}}
AllFuncs == Funcs \cup {"Umis"}
CallEvents == {e \in ({e \in Calls : e.c \in Classes(e.f)}
                      \cup {[m |-> "symmetry", f |-> "Umis", c |-> c] : c \in Classes("Umis")}) : e.f \in FuncSel}

VARIABLES switch, out, hist
vars == <<switch, out, hist>>

Init == switch = TRUE /\ out = "none" /\ hist = <<>>

(* what xfab.CHECKS.activated reads: the stored flag and not running under -O *)
Active(sw) == sw /\ DebugOn
Assign(v, th) ==
             /\ IF v \in ValidAssign
                  THEN switch' = (v = "True") /\ out' = "ok"
                  ELSE switch' = switch /\ out' = "ValueError"
             /\ hist' = Append(hist, [ev |-> "assign", v |-> v, out |-> out', sw |-> Active(switch'), th |-> th])

Call(e, th) ==
           /\ out' = IF Active(switch) /\ e.c \in Rejects(e.f) THEN "CheckError"
                     ELSE IF e.c \in ValidClasses THEN "returns" ELSE "unchecked"
           /\ switch' = switch
           /\ hist' = Append(hist, [ev |-> "call", m |-> e.m, f |-> e.f, c |-> e.c, out |-> out', sw |-> Active(switch), th |-> th])

(* a second, private instance of the switch class is created and assigned: the package-wide switch is not affected *)
OtherInstance(v, th) ==
                    /\ switch' = switch
                    /\ out' = IF v \in ValidAssign THEN "ok" ELSE "ValueError"
                    /\ hist' = Append(hist, [ev |-> "other_instance", v |-> v, out |-> out', sw |-> Active(switch), th |-> th])

Next == /\ Len(hist) < Depth
        /\ \E th \in Threads :
           \/ \E v \in AssignSel : Assign(v, th)
           \/ \E v \in {"True", "False", "int1"} : OtherInstance(v, th)
           \/ \E e \in CallEvents : Call(e, th)
Spec == Init /\ [][Next]_vars

---------------------------------------------------------------------------
RECURSIVE LastValid(_)
LastValid(h) == IF h = <<>> THEN TRUE
                ELSE LET e == h[Len(h)] IN
                       IF e.ev = "assign" /\ e.v \in ValidAssign THEN e.v = "True"
                       ELSE LastValid(SubSeq(h, 1, Len(h) - 1))
(* after any sequence of assignments the state is the last valid value *)
SwitchIsLastValid == switch = LastValid(hist)
(* under -O nothing is ever rejected by a check and the switch always reads False *)
OptimisedMeansOff == (~DebugOn) => \A i \in 1..Len(hist) : ~hist[i].sw /\ hist[i].out # "CheckError"
(* a valid input is never rejected, whatever the switch *)
NeverRejectsValid == \A i \in 1..Len(hist) : (hist[i].ev = "call" /\ hist[i].c \in ValidClasses) => hist[i].out = "returns"
(* with the switch off nothing is rejected by a check *)
OffMeansOff == \A i \in 1..Len(hist) : (hist[i].ev = "call" /\ ~hist[i].sw) => hist[i].out # "CheckError"
(* with the switch on every invalid class is rejected *)
OnRejectsInvalid == \A i \in 1..Len(hist) :
     (hist[i].ev = "call" /\ hist[i].sw /\ hist[i].c \notin ValidClasses \cup Unguarded) => hist[i].out = "CheckError"
(* no call ever changes the switch (action property): composite functions that call guarded functions included *)
CallsKeepSwitch == [][(\E th \in Threads : \E e \in CallEvents : Call(e, th)) => switch' = switch]_vars
(* what a thread observes does not depend on which thread assigned: every event's logged switch state is the last valid assignment
   of the WHOLE history before it, whatever the threads *)
RECURSIVE LastValidBefore(_, _)
LastValidBefore(h, i) == IF i = 0 THEN TRUE
                         ELSE IF h[i].ev = "assign" /\ h[i].v \in ValidAssign THEN h[i].v = "True" ELSE LastValidBefore(h, i - 1)
OneSwitchPerProcess == \A i \in 1..Len(hist) :
    hist[i].sw = Active(LastValidBefore(hist, IF hist[i].ev = "assign" THEN i ELSE i - 1))
(* an invalid assignment leaves the switch unchanged (action property) *)
InvalidAssignKeeps == [][(\E th \in Threads : \E v \in AssignValues \ ValidAssign : Assign(v, th)) => switch' = switch]_vars

Emit == Len(hist) = Depth => PrintT("@@" \o ToJson([hist |-> hist]))
=============================================================================
