SPECIFICATION Spec
INVARIANT Emit
INVARIANT EmitSig
CHECK_DEADLOCK FALSE
