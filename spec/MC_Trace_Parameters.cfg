SPECIFICATION TrSpec
CONSTANTS NameSeq <- TraceNames
          Toks <- TraceToks
          Depth = 1000
          ForcedTail <- TraceTail
INVARIANT TrEmit
INVARIANT RoundTrip
INVARIANT VariedFollows
INVARIANT StepsFollow
INVARIANT StepsizesDomain
CHECK_DEADLOCK FALSE
