------------------------------- MODULE SysAbs -------------------------------
(* The 26-slot reflection-condition evaluator of xfab (tools.sysabs_unique,  *)
(* tools.sysabs and their laue twins), modelled slot by slot in code order:  *)
(* every slot that fires overwrites the result ("last writer wins"), slot 3  *)
(* (H+K,H+L,K+L = XN) also RESETS the result to 0 when it is satisfied.      *)
(* cond is the 26-vector (1-based here, 0-based in the code).                *)
EXTENDS IntAlg

NDiv(x, c) == Abs(x) % c # 0          \* "abs(x) % condition != 0"

(* One slot: (membership in the reflection class, linear form) ; slot k (0-based) sets type k+1 *)
Slot(k, hkl, cond, ty) ==
  LET h == hkl[1]  kk == hkl[2]  l == hkl[3]  c == cond[k+1] IN
  IF c = 0 THEN ty ELSE
  CASE k = 0  -> IF NDiv(h+kk, c) THEN 1 ELSE ty
    [] k = 1  -> IF NDiv(h+l, c) THEN 2 ELSE ty
    [] k = 2  -> IF NDiv(kk+l, c) THEN 3 ELSE ty
    [] k = 3  -> IF ~NDiv(h+kk, c) /\ ~NDiv(h+l, c) /\ ~NDiv(kk+l, c) THEN 0 ELSE 4
    [] k = 4  -> IF NDiv(h+kk+l, c) THEN 5 ELSE ty
    [] k = 5  -> IF NDiv(-h+kk+l, c) THEN 6 ELSE ty
    [] k = 6  -> IF h = kk /\ NDiv(h, c) THEN 7 ELSE ty
    [] k = 7  -> IF h = kk /\ NDiv(l, c) THEN 8 ELSE ty
    [] k = 8  -> IF h = kk /\ NDiv(h+l, c) THEN 9 ELSE ty
    [] k = 9  -> IF h = kk /\ NDiv(h+h+l, c) THEN 10 ELSE ty
    [] k = 10 -> IF h = 0 /\ NDiv(kk, c) THEN 11 ELSE ty
    [] k = 11 -> IF h = 0 /\ NDiv(l, c) THEN 12 ELSE ty
    [] k = 12 -> IF h = 0 /\ NDiv(kk+l, c) THEN 13 ELSE ty
    [] k = 13 -> IF kk = 0 /\ NDiv(h, c) THEN 14 ELSE ty
    [] k = 14 -> IF kk = 0 /\ NDiv(l, c) THEN 15 ELSE ty
    [] k = 15 -> IF kk = 0 /\ NDiv(h+l, c) THEN 16 ELSE ty
    [] k = 16 -> IF l = 0 /\ NDiv(h, c) THEN 17 ELSE ty
    [] k = 17 -> IF l = 0 /\ NDiv(kk, c) THEN 18 ELSE ty
    [] k = 18 -> IF l = 0 /\ NDiv(h+kk, c) THEN 19 ELSE ty
    [] k = 19 -> IF l = 0 /\ h = kk /\ NDiv(h, c) THEN 20 ELSE ty
    [] k = 20 -> IF Abs(kk) + Abs(l) = 0 /\ NDiv(h, c) THEN 21 ELSE ty
    [] k = 21 -> IF Abs(h) + Abs(l) = 0 /\ NDiv(kk, c) THEN 22 ELSE ty
    [] k = 22 -> IF Abs(h) + Abs(kk) = 0 /\ NDiv(l, c) THEN 23 ELSE ty
    [] k = 23 -> IF h + kk = 0 /\ NDiv(h, c) THEN 24 ELSE ty
    [] k = 24 -> IF h + kk = 0 /\ NDiv(l, c) THEN 25 ELSE ty
    [] k = 25 -> IF h + kk = 0 /\ NDiv(h+l, c) THEN 26 ELSE ty

RECURSIVE RunSlots(_, _, _, _)
RunSlots(k, hkl, cond, ty) == IF k > 25 THEN ty ELSE RunSlots(k+1, hkl, cond, Slot(k, hkl, cond, ty))

SysAbsUnique(hkl, cond) == RunSlots(0, hkl, cond, 0)

(* sysabs: the index permutations tried in order until one reports an absence *)
Perms(hkl, system, choice) ==
  IF choice = "rhombohedral"
    THEN << hkl, <<hkl[2], hkl[3], hkl[1]>>, <<hkl[3], hkl[1], hkl[2]>> >>
  ELSE IF system \in {"trigonal", "hexagonal"}
    THEN << hkl, <<-(hkl[1]+hkl[2]), hkl[1], hkl[3]>>, <<hkl[2], -(hkl[1]+hkl[2]), hkl[3]>> >>
  ELSE IF system = "cubic"      \* cyclic permutations (three-fold axis), added by the C05 repair
    THEN << hkl, <<hkl[2], hkl[3], hkl[1]>>, <<hkl[3], hkl[1], hkl[2]>> >>
  ELSE << hkl >>

SysAbs(hkl, cond, system, choice) ==
  LET ps == Perms(hkl, system, choice)
      r == [i \in 1..Len(ps) |-> SysAbsUnique(ps[i], cond)] IN
  IF r[1] # 0 \/ Len(ps) = 1 THEN r[1]
  ELSE IF r[2] # 0 THEN r[2] ELSE r[3]
=============================================================================
