SPECIFICATION Spec
CONSTANTS Diag = {4, 9}
          OffMax = 3
          Depth = 4
INVARIANT Emit
INVARIANT AdjugateInverse
INVARIANT ReciprocalOfReciprocal
INVARIANT RecipPosDef
INVARIANT QPositive
INVARIANT ValidStays
CHECK_DEADLOCK FALSE
