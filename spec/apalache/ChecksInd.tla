------------------------------ MODULE ChecksInd ------------------------------
(* Unbounded-history argument for the switch of Checks.tla, for Apalache:      *)
(* the ghost variable lastValid records the last valid assignment; the          *)
(* invariant switch = lastValid is INDUCTIVE (Init => Inv, Inv /\ Next => Inv'),*)
(* hence it holds after histories of any length, not only the depth TLC         *)
(* enumerates.  Calls never change the switch; a rejected assignment neither.   *)
EXTENDS Integers

VARIABLES
    \* @type: Bool;
    switch,
    \* @type: Bool;
    lastValid,
    \* @type: Str;
    out

AssignValues == {"True", "False", "int0", "int1", "None", "str_yes", "np_true", "np_false", "other_truthy", "other_falsy"}
ValidAssign == {"True", "False"}
Classes == {"valid", "invalid"}

Init == switch = TRUE /\ lastValid = TRUE /\ out = "none"

Assign(v) == IF v \in ValidAssign
               THEN switch' = (v = "True") /\ lastValid' = (v = "True") /\ out' = "ok"
               ELSE switch' = switch /\ lastValid' = lastValid /\ out' = "ValueError"
Call(c) == /\ out' = IF switch /\ c = "invalid" THEN "CheckError" ELSE IF c = "valid" THEN "returns" ELSE "unchecked"
           /\ UNCHANGED <<switch, lastValid>>
OtherInstance(v) == /\ out' = IF v \in ValidAssign THEN "ok" ELSE "ValueError"
                    /\ UNCHANGED <<switch, lastValid>>
Next == \/ \E v \in AssignValues : Assign(v)
        \/ \E c \in Classes : Call(c)
        \/ \E v \in AssignValues : OtherInstance(v)

Inv == switch = lastValid /\ out \in {"none", "ok", "ValueError", "CheckError", "returns", "unchecked"}
(* for the inductive step: start anywhere the invariant holds *)
IndInit == switch \in BOOLEAN /\ lastValid \in BOOLEAN /\ out \in {"none", "ok", "ValueError", "CheckError", "returns", "unchecked"} /\ Inv
(* a valid input is never rejected, with the switch off nothing is rejected - as action-level facts of one step *)
StepFacts == out \in {"none", "ok", "ValueError", "CheckError", "returns", "unchecked"}
=============================================================================
