----------------------------- MODULE Identities -----------------------------
(* Polynomial identities the exact-lattice oracles rest on, discharged for    *)
(* ALL integers by Apalache (TLC only checks them on the enumerated lattice). *)
(*   Cayley:    N'N = D^2 I for N = (q^2-|p|^2) I + 2 p p' + 2 q [p]x         *)
(*   Adjugate:  G adj(G) = det(G) I for symmetric G                           *)
(* State = the free integers; Init leaves them unconstrained; the identities  *)
(* are checked as invariants of the initial state (length 0).                 *)
EXTENDS Integers

VARIABLES
    \* @type: Int;
    p1,
    \* @type: Int;
    p2,
    \* @type: Int;
    p3,
    \* @type: Int;
    q,
    \* @type: Int;
    g11,
    \* @type: Int;
    g22,
    \* @type: Int;
    g33,
    \* @type: Int;
    g23,
    \* @type: Int;
    g13,
    \* @type: Int;
    g12

Init == /\ p1 \in Int /\ p2 \in Int /\ p3 \in Int /\ q \in Int
        /\ g11 \in Int /\ g22 \in Int /\ g33 \in Int /\ g23 \in Int /\ g13 \in Int /\ g12 \in Int
Next == UNCHANGED <<p1, p2, p3, q, g11, g22, g33, g23, g13, g12>>

pp == p1*p1 + p2*p2 + p3*p3
D == q*q + pp
d0 == q*q - pp
N11 == d0 + 2*p1*p1
N12 == 2*p1*p2 - 2*q*p3
N13 == 2*p1*p3 + 2*q*p2
N21 == 2*p1*p2 + 2*q*p3
N22 == d0 + 2*p2*p2
N23 == 2*p2*p3 - 2*q*p1
N31 == 2*p1*p3 - 2*q*p2
N32 == 2*p2*p3 + 2*q*p1
N33 == d0 + 2*p3*p3
CayleyOrthogonal ==
    /\ N11*N11 + N21*N21 + N31*N31 = D*D
    /\ N12*N12 + N22*N22 + N32*N32 = D*D
    /\ N13*N13 + N23*N23 + N33*N33 = D*D
    /\ N11*N12 + N21*N22 + N31*N32 = 0
    /\ N11*N13 + N21*N23 + N31*N33 = 0
    /\ N12*N13 + N22*N23 + N32*N33 = 0

\* adjugate of the symmetric matrix [[g11,g12,g13],[g12,g22,g23],[g13,g23,g33]]
a11 == g22*g33 - g23*g23
a22 == g11*g33 - g13*g13
a33 == g11*g22 - g12*g12
a12 == g13*g23 - g12*g33
a13 == g12*g23 - g13*g22
a23 == g12*g13 - g11*g23
detG == g11*a11 + g12*a12 + g13*a13
AdjugateInverse ==
    /\ g11*a11 + g12*a12 + g13*a13 = detG
    /\ g12*a12 + g22*a22 + g23*a23 = detG
    /\ g13*a13 + g23*a23 + g33*a33 = detG
    /\ g11*a12 + g12*a22 + g13*a23 = 0
    /\ g11*a13 + g12*a23 + g13*a33 = 0
    /\ g12*a13 + g22*a23 + g23*a33 = 0
=============================================================================
