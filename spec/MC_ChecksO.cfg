SPECIFICATION Spec
CONSTANT Depth = 2
CONSTANT DebugOn = FALSE
INVARIANT Emit
INVARIANT OptimisedMeansOff
INVARIANT SwitchIsLastValid
INVARIANT NeverRejectsValid
INVARIANT OffMeansOff
INVARIANT OnRejectsInvalid
PROPERTY InvalidAssignKeeps
PROPERTY CallsKeepSwitch
CHECK_DEADLOCK FALSE
