SPECIFICATION Spec
CONSTANT Depth = 3
CONSTANT Threads = {"main", "worker"}
CONSTANT FuncSel = {"u_to_rod", "euler_to_u", "Umis", "ubi_to_rod"}
CONSTANT AssignSel = {"True", "False", "int1"}
CONSTANT DebugOn = TRUE
INVARIANT Emit
INVARIANT SwitchIsLastValid
INVARIANT NeverRejectsValid
INVARIANT OffMeansOff
INVARIANT OnRejectsInvalid
INVARIANT OneSwitchPerProcess
PROPERTY InvalidAssignKeeps
PROPERTY CallsKeepSwitch
CHECK_DEADLOCK FALSE
