SPECIFICATION Spec
INVARIANT Emit
INVARIANT OnCircle
INVARIANT RadiusExact
CHECK_DEADLOCK FALSE
