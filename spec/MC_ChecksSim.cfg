SPECIFICATION Spec
CONSTANT Depth = 14
CONSTANT DebugOn = TRUE
INVARIANT Emit
INVARIANT SwitchIsLastValid
INVARIANT NeverRejectsValid
INVARIANT OffMeansOff
INVARIANT OnRejectsInvalid
PROPERTY InvalidAssignKeeps
PROPERTY CallsKeepSwitch
CHECK_DEADLOCK FALSE
