SPECIFICATION Spec
CONSTANT Depth = 14
INVARIANT Emit
INVARIANT SwitchIsLastValid
INVARIANT NeverRejectsValid
INVARIANT OffMeansOff
INVARIANT OnRejectsInvalid
PROPERTY InvalidAssignKeeps
CHECK_DEADLOCK FALSE
