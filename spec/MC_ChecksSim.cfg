SPECIFICATION Spec
CONSTANT Depth = 14
CONSTANT Threads = {"main", "worker"}
CONSTANT FuncSel <- AllFuncs
CONSTANT AssignSel <- AssignValues
CONSTANT DebugOn = TRUE
INVARIANT Emit
INVARIANT SwitchIsLastValid
INVARIANT NeverRejectsValid
INVARIANT OffMeansOff
INVARIANT OnRejectsInvalid
INVARIANT OneSwitchPerProcess
PROPERTY InvalidAssignKeeps
PROPERTY CallsKeepSwitch
CHECK_DEADLOCK FALSE
