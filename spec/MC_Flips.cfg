SPECIFICATION Spec
CONSTANTS MaxW = 8
          MaxH = 8
INVARIANT Emit
INVARIANT TransStoresAtMap
INVARIANT MapBijective
INVARIANT InverseUndoes
INVARIANT CoordInverse
INVARIANT CodeCoordsAgree
INVARIANT ValidationAgrees
CHECK_DEADLOCK FALSE
