SPECIFICATION Spec
INVARIANT Emit
INVARIANT NormExact
INVARIANT OmegaOrthonormal
CHECK_DEADLOCK FALSE
