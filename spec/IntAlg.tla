----------------------------- MODULE IntAlg -----------------------------
(* Exact integer linear algebra used by every xfab model.                 *)
(* 3x3 matrices are <<row1,row2,row3>>, vectors are <<x,y,z>>.            *)
(* TLC integers are 32 bit and overflow aborts the run, so every exact    *)
(* answer is either right or the run fails loudly.                        *)
EXTENDS Integers, Sequences, FiniteSets

I3 == <<<<1,0,0>>,<<0,1,0>>,<<0,0,1>>>>
Z3 == <<<<0,0,0>>,<<0,0,0>>,<<0,0,0>>>>
Idx == 1..3

Abs(x) == IF x < 0 THEN -x ELSE x
Sgn(x) == IF x < 0 THEN -1 ELSE IF x > 0 THEN 1 ELSE 0
Max(a,b) == IF a > b THEN a ELSE b
Min(a,b) == IF a < b THEN a ELSE b

RECURSIVE Gcd(_,_)
Gcd(a,b) == IF b = 0 THEN Abs(a) ELSE Gcd(b, a % b)

Dot(u,v) == u[1]*v[1] + u[2]*v[2] + u[3]*v[3]
VAdd(u,v) == <<u[1]+v[1], u[2]+v[2], u[3]+v[3]>>
VSub(u,v) == <<u[1]-v[1], u[2]-v[2], u[3]-v[3]>>
VNeg(u) == <<-u[1], -u[2], -u[3]>>
VScale(k,u) == <<k*u[1], k*u[2], k*u[3]>>
Cross(u,v) == <<u[2]*v[3]-u[3]*v[2], u[3]*v[1]-u[1]*v[3], u[1]*v[2]-u[2]*v[1]>>

Col(M,j) == <<M[1][j], M[2][j], M[3][j]>>
Transpose(M) == <<Col(M,1), Col(M,2), Col(M,3)>>
MatVec(M,v) == <<Dot(M[1],v), Dot(M[2],v), Dot(M[3],v)>>          \* M.v  (column vector)
VecMat(v,M) == <<Dot(v,Col(M,1)), Dot(v,Col(M,2)), Dot(v,Col(M,3))>> \* v.M  (row vector)
MatMul(A,B) == [i \in Idx |-> [j \in Idx |-> Dot(A[i], Col(B,j))]]
MatAdd(A,B) == [i \in Idx |-> [j \in Idx |-> A[i][j] + B[i][j]]]
MatNeg(A) == [i \in Idx |-> [j \in Idx |-> -A[i][j]]]
MatScale(k,A) == [i \in Idx |-> [j \in Idx |-> k*A[i][j]]]
Det(M) == Dot(M[1], Cross(M[2], M[3]))
Trace(M) == M[1][1] + M[2][2] + M[3][3]
(* adjugate: M . Adj(M) = Det(M) . I *)
Adj(M) == Transpose(<<Cross(M[2],M[3]), Cross(M[3],M[1]), Cross(M[1],M[2])>>)
IsUpper(M) == M[2][1] = 0 /\ M[3][1] = 0 /\ M[3][2] = 0
QuadForm(M,h) == Dot(h, MatVec(M,h))

(* Symmetric matrices as 6-tuples <<g11,g22,g33,g23,g13,g12>> (the order xfab uses for ADPs) *)
Sym(g) == <<<<g[1],g[6],g[5]>>,<<g[6],g[2],g[4]>>,<<g[5],g[4],g[3]>>>>
Sym6(M) == <<M[1][1],M[2][2],M[3][3],M[2][3],M[1][3],M[1][2]>>
IsSymmetric(M) == M[1][2]=M[2][1] /\ M[1][3]=M[3][1] /\ M[2][3]=M[3][2]
(* Sylvester: positive definite *)
IsPosDef(M) == /\ M[1][1] > 0
               /\ M[1][1]*M[2][2] - M[1][2]*M[2][1] > 0
               /\ Det(M) > 0

Mod(a,n) == a % n   \* TLC's % is the mathematical modulus for n > 0 (result in 0..n-1)
VMod(v,n) == <<v[1] % n, v[2] % n, v[3] % n>>

SeqToSet(s) == {s[i] : i \in DOMAIN s}
==========================================================================
