-------------------------- MODULE Trace_Parameters --------------------------
(* Trace validation for xfab.parameters: histories recorded from the real   *)
(* object (one event per public call, logged at return with the full        *)
(* projected state - it is small) must be behaviours of Parameters.tla.     *)
(* ParamTraces (generated): Traces = sequence of [other0, events], each     *)
(* event [e |-> call with arguments, post |-> projected state after it].    *)
EXTENDS Parameters, ParamTraces
VARIABLES tid, l
tvars == <<pars, varylist, variable_list, stepsizes, file, other, ret, hist, other0, kind, tid, l>>
TrInit == /\ tid \in 1..Len(Traces) /\ l = 1
          /\ pars = <<>> /\ varylist = <<>> /\ variable_list = <<>> /\ stepsizes = <<>>
          /\ file = [exists |-> FALSE, lines |-> <<>>] /\ ret = R("none", 0) /\ hist = <<>>
          /\ other = Traces[tid].other0 /\ other0 = other /\ kind = "none"
More == l <= Len(Traces[tid].events)
E == Traces[tid].events[l].e
P == Traces[tid].events[l].post
Act == CASE E.ev = "addpar" -> AddPar(E.n, E.v, E.vary, E.cv, E.st)
         [] E.ev = "set" -> Set(E.n, E.v)
         [] E.ev = "set_parameters" -> SetParameters(E.d)
         [] E.ev = "get" -> Get(E.n)
         [] E.ev = "set_varylist" -> SetVarylist(E.vl)
         [] E.ev = "set_variable_values" -> SetVariableValues(E.vs)
         [] E.ev = "get_variable_values" -> GetVariableValues
         [] E.ev = "update_other" -> UpdateOther
         [] E.ev = "update_yourself" -> UpdateYourself
         [] E.ev = "other_set" -> OtherSet(E.n, E.v)
         [] E.ev = "save" -> Save
         [] E.ev = "load" -> Load
         [] E.ev = "load_fresh" -> LoadFresh
         [] E.ev = "addpar_sl" -> AddParSL(E.n, E.v, E.vary, E.cv, E.st)
         [] E.ev = "construct" -> Construct(E.d)
         [] E.ev = "get_variable_stepsizes" -> GetVariableStepsizes
         [] E.ev = "get_variable_list" -> GetVariableList
         [] E.ev = "get_parameters" -> GetParameters
         [] E.ev = "read_par_file" -> ReadParFile
         [] E.ev = "fork" -> Fork(E.n, E.v)
(* bind every logged field of the projected state *)
PostMatches == /\ pars' = P.pars /\ varylist' = P.varylist /\ variable_list' = P.variable_list
               /\ stepsizes' = P.stepsizes /\ other' = P.other /\ ret' = P.ret
TrNext == More /\ Act /\ PostMatches /\ l' = l + 1 /\ UNCHANGED <<tid, other0, kind>>
TrSpec == TrInit /\ [][TrNext]_tvars
TrEmit == PrintT("@@" \o ToJson([tid |-> tid, l |-> l]))
=============================================================================
