---------------------------- MODULE SpaceGroup ----------------------------
(* Space-group tables of xfab (sglib.py) and the lookup automaton of       *)
(* sg.sg.__init__ (sg.py).                                                 *)
(*                                                                         *)
(* Tables and Dict are the implementation's own data, exported from the    *)
(* working tree at check time (never a snapshot).  This module contains    *)
(* the LAWS the data must satisfy and the lookup machine.                  *)
(* Translations are integers in 24ths (24 = lcm of every tabulated         *)
(* translation denominator: 2,3,4,6,8).                                    *)
EXTENDS SgOps, Json

---------------------------------------------------------------------------
(* Text handling: names are sequences of character codes. *)

White == {9, 10, 11, 12, 13, 32}
Lower(c) == IF c \in 65..90 THEN c + 32 ELSE c
Upper(c) == IF c \in 97..122 THEN c - 32 ELSE c
Normalise(s) == LET kept == SelectSeq(s, LAMBDA c : c \notin White)
                IN [i \in 1..Len(kept) |-> Lower(kept[i])]

RECURSIVE Interleave(_, _)
Interleave(s, c) == IF Len(s) <= 1 THEN s ELSE <<s[1], c>> \o Interleave(Tail(s), c)

Variants == 1..6
Spell(k, v) ==
  CASE v = 1 -> k
    [] v = 2 -> [i \in 1..Len(k) |-> Upper(k[i])]
    [] v = 3 -> Interleave(k, 32)
    [] v = 4 -> <<32, 9>> \o k \o <<9, 32, 32>>
    [] v = 5 -> Interleave([i \in 1..Len(k) |-> IF i % 2 = 1 THEN Upper(k[i]) ELSE k[i]], 9)
    [] v = 6 -> <<Upper(k[1])>> \o Tail(k) \o <<32, 10>>

CodeR == 114   \* "r"


---------------------------------------------------------------------------
(* The lookup machine, one action per step of sg.__init__. *)

VARIABLES req, pc, text, klass, choice, tbl, failed
vars == <<req, pc, text, klass, choice, tbl, failed>>

Settings == {"standard", "rhombohedral", "hexagonal"}      \* "hexagonal" is what the R-centred tables report as their own cell_choice

Requests ==
       {[kind |-> "table", i |-> i] : i \in 1..Len(Tables)}
  \cup {[kind |-> "number", no |-> n, setting |-> s] : n \in 1..230, s \in Settings}
  \cup {[kind |-> "name", k |-> k, v |-> v] : k \in 1..Len(Dict), v \in Variants}
  \cup {[kind |-> "nameset", k |-> k, v |-> 1, setting |-> s] : k \in 1..Len(Dict), s \in Settings}    \* a name AND an explicit cell_choice

Init == /\ req \in Requests
        /\ text = <<>> /\ failed = {}
        /\ CASE req.kind = "table"  -> pc = "laws" /\ tbl = req.i /\ klass = Tables[req.i].no
                                       /\ choice = Tables[req.i].setting
             [] req.kind = "number" -> pc = "inst" /\ tbl = 0 /\ klass = req.no /\ choice = req.setting
             [] req.kind = "name"   -> pc = "norm" /\ tbl = 0 /\ klass = 0 /\ choice = "standard"
             [] req.kind = "nameset" -> pc = "norm" /\ tbl = 0 /\ klass = 0 /\ choice = req.setting

DoNormalise == /\ pc = "norm"
               /\ text' = Normalise(Spell(Dict[req.k].key, req.v))
               /\ pc' = "dict"
               /\ UNCHANGED <<req, klass, choice, tbl, failed>>

DictEntries(t) == {i \in 1..Len(Dict) : Dict[i].key = t}

DoDict == /\ pc = "dict"
          /\ IF DictEntries(text) = {}
               THEN pc' = "keyerror" /\ klass' = klass
               ELSE /\ klass' = Dict[CHOOSE i \in DictEntries(text) : TRUE].no
                    /\ pc' = "suffix"
          /\ UNCHANGED <<req, text, choice, tbl, failed>>

DoSuffix == /\ pc = "suffix"
            /\ choice' = IF Len(text) > 0 /\ text[1] = CodeR /\ text[Len(text)] = CodeR
                           THEN "rhombohedral" ELSE choice
            /\ pc' = "inst"
            /\ UNCHANGED <<req, text, klass, tbl, failed>>

(* Classes without a rhombohedral variant ignore the setting. *)
DoInstantiate == /\ pc = "inst"
                 /\ LET s == IF HasTable(klass, choice) THEN choice ELSE "standard" IN
                      IF HasTable(klass, s) THEN tbl' = TableIndex(klass, s) /\ pc' = "resolved"
                                            ELSE tbl' = 0 /\ pc' = "noclass"
                 /\ UNCHANGED <<req, text, klass, choice, failed>>

DoLaws == /\ pc = "laws"
          /\ failed' = Failed(Tables[tbl])
          /\ pc' = "checked"
          /\ UNCHANGED <<req, text, klass, choice, tbl>>

Next == DoNormalise \/ DoDict \/ DoSuffix \/ DoInstantiate \/ DoLaws
Spec == Init /\ [][Next]_vars /\ WF_vars(Next)

---------------------------------------------------------------------------
(* Properties *)

Terminal == pc \in {"resolved", "checked", "keyerror", "noclass"}

(* Name consistency: the resolved table's own name, normalised, is the key, up to the h suffix *)
NameAgrees == (pc = "resolved" /\ req.kind = "name") =>
                 LET nm == Normalise(Tables[tbl].name) IN
                   \/ text = nm
                   \/ (Tables[tbl].setting = "standard" /\ HasTable(klass, "rhombohedral")
                       /\ text = nm \o <<104>>)      \* trailing "h"
(* every dictionary key resolves, to the class the dictionary names *)
KeysResolve == (req.kind \in {"name", "nameset"} /\ Terminal) => (pc = "resolved" /\ Tables[tbl].no = Dict[req.k].no)
(* rhombohedral tables are reached exactly by the r...r keys *)
SuffixRule == (pc = "resolved" /\ req.kind = "name") =>
                 ((Tables[tbl].setting = "rhombohedral") <=> (text[1] = CodeR /\ text[Len(text)] = CodeR))
NumbersResolve == (req.kind = "number" /\ Terminal) => (pc = "resolved" /\ Tables[tbl].no = req.no)
LawsHold == pc = "checked" => failed = {}

Emit == Terminal =>
   PrintT("@@" \o ToJson(
     [req |-> req, pc |-> pc,
      spelled |-> IF req.kind \in {"name", "nameset"} THEN Spell(Dict[req.k].key, req.v) ELSE <<>>,
      text |-> text,
      no |-> IF tbl > 0 THEN Tables[tbl].no ELSE 0,
      setting |-> IF tbl > 0 THEN Tables[tbl].setting ELSE "",
      failed |-> failed,
      nameagrees |-> NameAgrees, keysresolve |-> KeysResolve, suffixrule |-> SuffixRule,
      numbersresolve |-> NumbersResolve]))

Terminates == <>Terminal
===========================================================================
