---------------------------- MODULE SpaceGroup ----------------------------
(* Space-group tables of xfab (sglib.py) and the lookup automaton of       *)
(* sg.sg.__init__ (sg.py).                                                 *)
(*                                                                         *)
(* Tables and Dict are the implementation's own data, exported from the    *)
(* working tree at check time (never a snapshot).  This module contains    *)
(* the LAWS the data must satisfy and the lookup machine.                  *)
(* Translations are integers in 24ths (24 = lcm of every tabulated         *)
(* translation denominator: 2,3,4,6,8).                                    *)
(* XfabTables is GENERATED into the check's work directory from the tree    *)
(* under test (harness/export.py) and defines                              *)
(*   Tables : sequence of records no, setting, name (character codes),     *)
(*            crystal_system, Laue, nsymop, nuniq, cell_choice, syscond,   *)
(*            rot, trans (24ths), bad, own_no                               *)
(*   Dict   : sequence of records key (character codes), no                *)
(* It is EXTENDed rather than bound through CONSTANT ... <- because TLC    *)
(* re-evaluates an overridden constant on every reference (measured:       *)
(* 3 min instead of 2 s), while a literal definition is evaluated once.    *)
EXTENDS IntAlg, TLC, Json, XfabTables

T24 == 24

---------------------------------------------------------------------------
(* Group structure *)

Op(tb, i) == [r |-> tb.rot[i], t |-> tb.trans[i]]
NOps(tb) == Len(tb.rot)
Ops(tb) == {Op(tb, i) : i \in 1..NOps(tb)}
Rots(tb) == {tb.rot[i] : i \in 1..NOps(tb)}

(* (R1,t1)(R2,t2) : x -> R1(R2 x + t2) + t1 *)
Compose(a, b) == [r |-> MatMul(a.r, b.r), t |-> VMod(VAdd(MatVec(a.r, b.t), a.t), T24)]
Identity == [r |-> I3, t |-> <<0,0,0>>]
ApplyOp(o, p, N) == VMod(VAdd(MatVec(o.r, p), VScale(N \div T24, o.t)), N)   \* positions in 1/N, 24 | N

LaueOrder(l) ==
  CASE l = "-1" -> 2   [] l = "2/m" -> 4  [] l = "mmm" -> 8   [] l = "4/m" -> 8
    [] l = "4/mmm" -> 16 [] l = "-3" -> 6  [] l = "-3m" -> 12  [] l = "-3m1" -> 12
    [] l = "-31m" -> 12 [] l = "6/m" -> 12 [] l = "6/mmm" -> 24 [] l = "m-3" -> 24
    [] l = "m-3m" -> 48 [] OTHER -> 0

(* Crystal systems consistent with a Laue class *)
SystemOfLaue(l) ==
  CASE l = "-1" -> {"triclinic"} [] l = "2/m" -> {"monoclinic"} [] l = "mmm" -> {"orthorhombic"}
    [] l \in {"4/m","4/mmm"} -> {"tetragonal"}
    [] l \in {"-3","-3m","-3m1","-31m"} -> {"trigonal"}
    [] l \in {"6/m","6/mmm"} -> {"hexagonal"}
    [] l \in {"m-3","m-3m"} -> {"cubic"} [] OTHER -> {}

(* Basis of the linear space of metric tensors conforming to the crystal   *)
(* system and setting.  "R preserves the metric of every conforming cell"  *)
(* is exactly: R' E R = E for every basis element E.                       *)
MetricBasis(sys, choice) ==
  CASE sys = "triclinic" ->
         {Sym(<<1,0,0,0,0,0>>), Sym(<<0,1,0,0,0,0>>), Sym(<<0,0,1,0,0,0>>),
          Sym(<<0,0,0,1,0,0>>), Sym(<<0,0,0,0,1,0>>), Sym(<<0,0,0,0,0,1>>)}
    [] sys = "monoclinic" ->      \* unique axis b
         {Sym(<<1,0,0,0,0,0>>), Sym(<<0,1,0,0,0,0>>), Sym(<<0,0,1,0,0,0>>), Sym(<<0,0,0,0,1,0>>)}
    [] sys = "orthorhombic" ->
         {Sym(<<1,0,0,0,0,0>>), Sym(<<0,1,0,0,0,0>>), Sym(<<0,0,1,0,0,0>>)}
    [] sys = "tetragonal" -> {Sym(<<1,1,0,0,0,0>>), Sym(<<0,0,1,0,0,0>>)}
    [] sys \in {"trigonal","hexagonal"} /\ choice # "rhombohedral" ->
         {Sym(<<2,2,0,0,0,-1>>), Sym(<<0,0,1,0,0,0>>)}      \* a = b, gamma = 120
    [] sys = "trigonal" /\ choice = "rhombohedral" ->
         {Sym(<<1,1,1,0,0,0>>), Sym(<<0,0,0,1,1,1>>)}       \* a = b = c, alpha = beta = gamma
    [] sys = "cubic" -> {Sym(<<1,1,1,0,0,0>>)}
    [] OTHER -> {}

PreservesMetric(R, E) == MatMul(Transpose(R), MatMul(E, R)) = E

CentringTranslations(tb) == {o.t : o \in {p \in Ops(tb) : p.r = I3}}

(* The laws, each named so that a violation is localised. *)
Laws(tb) ==
  LET ops == Ops(tb)  rots == Rots(tb)  n == NOps(tb)  basis == MetricBasis(tb.crystal_system, tb.cell_choice) IN
  [ wellformed   |-> /\ Len(tb.bad) = 0 /\ Len(tb.trans) = n /\ Len(tb.syscond) = 26
                     /\ \A i \in 1..n : Abs(Det(tb.rot[i])) = 1,
    count        |-> n = tb.nsymop,
    identity     |-> Identity \in ops,
    nodup        |-> Cardinality(ops) = n,
    closed       |-> \A a \in ops : \A b \in ops : Compose(a, b) \in ops,
    inverses     |-> \A a \in ops : \E b \in ops : Compose(a, b) = Identity,
    nuniq        |-> /\ tb.nuniq \in 1..n
                     /\ Cardinality({tb.rot[i] : i \in 1..Min(tb.nuniq, n)}) = tb.nuniq
                     /\ {tb.rot[i] : i \in 1..Min(tb.nuniq, n)} = rots,
    centring     |-> tb.nsymop = tb.nuniq * Cardinality(CentringTranslations(tb)),
    laue         |-> /\ LaueOrder(tb.Laue) > 0
                     /\ Cardinality(rots \cup {MatNeg(R) : R \in rots}) = LaueOrder(tb.Laue),
    system       |-> tb.crystal_system \in SystemOfLaue(tb.Laue),
    metric       |-> /\ basis # {}
                     /\ \A R \in rots : \A E \in basis : PreservesMetric(R, E),
    number       |-> tb.own_no = tb.no /\ tb.no \in 1..230 ]

LawNames == {"wellformed","count","identity","nodup","closed","inverses","nuniq","centring",
             "laue","system","metric","number"}
Failed(tb) == LET l == Laws(tb) IN {nm \in LawNames : ~l[nm]}

---------------------------------------------------------------------------
(* Text handling: names are sequences of character codes. *)

White == {9, 10, 11, 12, 13, 32}
Lower(c) == IF c \in 65..90 THEN c + 32 ELSE c
Upper(c) == IF c \in 97..122 THEN c - 32 ELSE c
Normalise(s) == LET kept == SelectSeq(s, LAMBDA c : c \notin White)
                IN [i \in 1..Len(kept) |-> Lower(kept[i])]

RECURSIVE Interleave(_, _)
Interleave(s, c) == IF Len(s) <= 1 THEN s ELSE <<s[1], c>> \o Interleave(Tail(s), c)

Variants == 1..6
Spell(k, v) ==
  CASE v = 1 -> k
    [] v = 2 -> [i \in 1..Len(k) |-> Upper(k[i])]
    [] v = 3 -> Interleave(k, 32)
    [] v = 4 -> <<32, 9>> \o k \o <<9, 32, 32>>
    [] v = 5 -> Interleave([i \in 1..Len(k) |-> IF i % 2 = 1 THEN Upper(k[i]) ELSE k[i]], 9)
    [] v = 6 -> <<Upper(k[1])>> \o Tail(k) \o <<32, 10>>

CodeR == 114   \* "r"

HasTable(no, setting) == \E i \in 1..Len(Tables) : Tables[i].no = no /\ Tables[i].setting = setting
TableIndex(no, setting) == CHOOSE i \in 1..Len(Tables) : Tables[i].no = no /\ Tables[i].setting = setting

---------------------------------------------------------------------------
(* The lookup machine, one action per step of sg.__init__. *)

VARIABLES req, pc, text, klass, choice, tbl, failed
vars == <<req, pc, text, klass, choice, tbl, failed>>

Settings == {"standard", "rhombohedral"}

Requests ==
       {[kind |-> "table", i |-> i] : i \in 1..Len(Tables)}
  \cup {[kind |-> "number", no |-> n, setting |-> s] : n \in 1..230, s \in Settings}
  \cup {[kind |-> "name", k |-> k, v |-> v] : k \in 1..Len(Dict), v \in Variants}

Init == /\ req \in Requests
        /\ text = <<>> /\ failed = {}
        /\ CASE req.kind = "table"  -> pc = "laws" /\ tbl = req.i /\ klass = Tables[req.i].no
                                       /\ choice = Tables[req.i].setting
             [] req.kind = "number" -> pc = "inst" /\ tbl = 0 /\ klass = req.no /\ choice = req.setting
             [] req.kind = "name"   -> pc = "norm" /\ tbl = 0 /\ klass = 0 /\ choice = "standard"

DoNormalise == /\ pc = "norm"
               /\ text' = Normalise(Spell(Dict[req.k].key, req.v))
               /\ pc' = "dict"
               /\ UNCHANGED <<req, klass, choice, tbl, failed>>

DictEntries(t) == {i \in 1..Len(Dict) : Dict[i].key = t}

DoDict == /\ pc = "dict"
          /\ IF DictEntries(text) = {}
               THEN pc' = "keyerror" /\ klass' = klass
               ELSE /\ klass' = Dict[CHOOSE i \in DictEntries(text) : TRUE].no
                    /\ pc' = "suffix"
          /\ UNCHANGED <<req, text, choice, tbl, failed>>

DoSuffix == /\ pc = "suffix"
            /\ choice' = IF Len(text) > 0 /\ text[1] = CodeR /\ text[Len(text)] = CodeR
                           THEN "rhombohedral" ELSE choice
            /\ pc' = "inst"
            /\ UNCHANGED <<req, text, klass, tbl, failed>>

(* Classes without a rhombohedral variant ignore the setting. *)
DoInstantiate == /\ pc = "inst"
                 /\ LET s == IF HasTable(klass, choice) THEN choice ELSE "standard" IN
                      IF HasTable(klass, s) THEN tbl' = TableIndex(klass, s) /\ pc' = "resolved"
                                            ELSE tbl' = 0 /\ pc' = "noclass"
                 /\ UNCHANGED <<req, text, klass, choice, failed>>

DoLaws == /\ pc = "laws"
          /\ failed' = Failed(Tables[tbl])
          /\ pc' = "checked"
          /\ UNCHANGED <<req, text, klass, choice, tbl>>

Next == DoNormalise \/ DoDict \/ DoSuffix \/ DoInstantiate \/ DoLaws
Spec == Init /\ [][Next]_vars /\ WF_vars(Next)

---------------------------------------------------------------------------
(* Properties *)

Terminal == pc \in {"resolved", "checked", "keyerror", "noclass"}

(* Name consistency: the resolved table's own name, normalised, is the key, up to the h suffix *)
NameAgrees == (pc = "resolved" /\ req.kind = "name") =>
                 LET nm == Normalise(Tables[tbl].name) IN
                   \/ text = nm
                   \/ (Tables[tbl].setting = "standard" /\ HasTable(klass, "rhombohedral")
                       /\ text = nm \o <<104>>)      \* trailing "h"
(* every dictionary key resolves, to the class the dictionary names *)
KeysResolve == (req.kind = "name" /\ Terminal) => (pc = "resolved" /\ Tables[tbl].no = Dict[req.k].no)
(* rhombohedral tables are reached exactly by the r...r keys *)
SuffixRule == (pc = "resolved" /\ req.kind = "name") =>
                 ((Tables[tbl].setting = "rhombohedral") <=> (text[1] = CodeR /\ text[Len(text)] = CodeR))
NumbersResolve == (req.kind = "number" /\ Terminal) => (pc = "resolved" /\ Tables[tbl].no = req.no)
LawsHold == pc = "checked" => failed = {}

Emit == Terminal =>
   PrintT("@@" \o ToJson(
     [req |-> req, pc |-> pc,
      spelled |-> IF req.kind = "name" THEN Spell(Dict[req.k].key, req.v) ELSE <<>>,
      text |-> text,
      no |-> IF tbl > 0 THEN Tables[tbl].no ELSE 0,
      setting |-> IF tbl > 0 THEN Tables[tbl].setting ELSE "",
      failed |-> failed,
      nameagrees |-> NameAgrees, keysresolve |-> KeysResolve, suffixrule |-> SuffixRule,
      numbersresolve |-> NumbersResolve]))

Terminates == <>Terminal
===========================================================================
