SPECIFICATION TrSpec
CONSTANT Depth = 1000
INVARIANT TrEmit
INVARIANT TrInvariant
CHECK_DEADLOCK FALSE
