SPECIFICATION TrSpec
CONSTANT Depth = 1000
CONSTANT Threads = {"main", "worker"}
CONSTANT FuncSel <- AllFuncs
CONSTANT AssignSel <- AssignValues
CONSTANT DebugOn = TRUE
INVARIANT TrEmit
INVARIANT TrInvariant
CHECK_DEADLOCK FALSE
