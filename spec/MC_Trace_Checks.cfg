SPECIFICATION TrSpec
CONSTANT Depth = 1000
CONSTANT DebugOn = TRUE
INVARIANT TrEmit
INVARIANT TrInvariant
CHECK_DEADLOCK FALSE
