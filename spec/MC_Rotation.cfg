SPECIFICATION Spec
INVARIANT Emit
INVARIANT AnglesOK
INVARIANT Orthonormal
INVARIANT Proper
INVARIANT GimbalIsRz
CHECK_DEADLOCK FALSE
