----------------------------- MODULE FormFactor -----------------------------
(* Atomic form factors f(s) = sum_{i=1..4} a_i exp(-b_i s^2) + c  of          *)
(* xfab.atomlib.formfactor.  XfabFormFactor (generated from the tree under    *)
(* test): Coeffs = sequence of [el (symbol text), c (the nine coefficients    *)
(* a1..a4, b1..b4, c scaled by 10^6 to integers), n (number of coefficients)].*)
(* The specification's own constant is the periodic table.                    *)
EXTENDS Integers, Sequences, FiniteSets, TLC, Json, XfabFormFactor

PeriodicTable == <<"H","HE","LI","BE","B","C","N","O","F","NE","NA","MG","AL","SI","P","S","CL","AR","K","CA",
  "SC","TI","V","CR","MN","FE","CO","NI","CU","ZN","GA","GE","AS","SE","BR","KR","RB","SR","Y","ZR","NB","MO","TC",
  "RU","RH","PD","AG","CD","IN","SN","SB","TE","I","XE","CS","BA","LA","CE","PR","ND","PM","SM","EU","GD","TB","DY",
  "HO","ER","TM","YB","LU","HF","TA","W","RE","OS","IR","PT","AU","HG","TL","PB","BI","PO","AT","RN","FR","RA","AC",
  "TH","PA","U","NP","PU">>
ZOf(sym) == IF \E z \in 1..Len(PeriodicTable) : PeriodicTable[z] = sym
              THEN CHOOSE z \in 1..Len(PeriodicTable) : PeriodicTable[z] = sym ELSE 0
Abs(x) == IF x < 0 THEN -x ELSE x
Scale == 1000000

VARIABLES e, stage
vars == <<e, stage>>
Init == e \in 1..Len(Coeffs) /\ stage = "entry"
Judge == stage = "entry" /\ stage' = "judged" /\ UNCHANGED e
Next == Judge
Spec == Init /\ [][Next]_vars

Rec == Coeffs[e]
A(i) == Rec.c[i]
B(i) == Rec.c[i + 4]
C0 == Rec.c[9]
Z == ZOf(Rec.el)
(* f(0) = sum a_i + c equals the atomic number within 0.1 electron *)
F0 == A(1) + A(2) + A(3) + A(4) + C0
F0ok == Rec.n = 9 /\ Z > 0 /\ Abs(F0 - Z * Scale) <= Scale \div 10
BPositive == \A i \in 1..4 : B(i) > 0
(* f'(s) = -2 s sum a_i b_i exp(-b_i s^2) < 0 on (0, inf) when every a_i b_i > 0 *)
MonotoneAnalytic == BPositive /\ \A i \in 1..4 : A(i) > 0
(* all terms positive: f > 0 everywhere; otherwise (decreasing) it suffices that f(2) > 0, evaluated by the harness *)
PositiveAnalytic == MonotoneAnalytic /\ C0 >= 0
AllElementsPresent == Cardinality({Coeffs[i].el : i \in 1..Len(Coeffs)}) = Len(Coeffs)
                      /\ \A z \in 1..Len(PeriodicTable) : \E i \in 1..Len(Coeffs) : Coeffs[i].el = PeriodicTable[z]

Emit == stage = "judged" =>
   PrintT("@@" \o ToJson([el |-> Rec.el, Z |-> Z, f0 |-> F0, f0ok |-> F0ok, bpos |-> BPositive,
                           monotone |-> MonotoneAnalytic, positive |-> PositiveAnalytic, complete |-> AllElementsPresent]))
=============================================================================
