SPECIFICATION Spec
CONSTANTS Diag = {3, 5, 8, 12}
          OffMax = 4
          Depth = 4
INVARIANT Emit
INVARIANT AdjugateInverse
INVARIANT ReciprocalOfReciprocal
INVARIANT RecipPosDef
INVARIANT QPositive
INVARIANT ValidStays
CHECK_DEADLOCK FALSE
