SPECIFICATION Spec
INVARIANT Emit
INVARIANT Shape
INVARIANT BackSubstitution
INVARIANT ZeroStrainIsB0
INVARIANT CayleyProper
CHECK_DEADLOCK FALSE
