SPECIFICATION Spec
INVARIANT Emit
INVARIANT PlanComplete
INVARIANT AdpNormalised
INVARIANT MultiplicityRule
CHECK_DEADLOCK FALSE
