---------------------------- MODULE MC_Parameters ----------------------------
EXTENDS Parameters
T(k, x) == [k |-> k, x |-> x]
(* small alphabet for the exhaustive run *)
SmallNames == <<"2th", "b-c", "b_c">>      \* in file (ASCII) order; "2th" is a legal name that is not a Python identifier
SmallToks == <<T("int", 4), T("str_int", 4), T("str_padded", 1)>>      \* int id 4: an integer that no double represents
(* smaller alphabet for the deeper exhaustive run of the thorough tier *)
TinyNames == <<"b-c", "b_c">>
TinyToks == <<T("str_int", 2), T("str_padded", 1)>>
(* rich alphabet for simulation *)
RichNames == <<"2th", "a", "b-c", "b_c", "y.c", "z9">>
RichToks == <<T("int", 1), T("int", 3), T("int", 4), T("str_int", 4), T("float", 0), T("float", 2), T("str_plain", 0), T("str_plain", 2),
              T("str_empty", 0), T("str_int", 2), T("str_float", 1), T("str_float", 3), T("str_padint", 1),
              T("str_padded", 1), T("str_inner", 0), T("none", 0)>>
TailRoundTrip == <<"save", "load_fresh">>
TailSim == <<"save", "load", "get_variable_values">>
NoTail == <<>>
=============================================================================
