------------------------------ MODULE StructFac ------------------------------
(* Structure factors (xfab.structure.StructureFactor) on exact data.          *)
(* An atom sits at p/N (24 | N); the sum over the symmetry operations is      *)
(* accumulated one operation per step, as the code's inner loop does:         *)
(*   image_j = R_j p + t_j (mod N),  phase index phi_j = h . image_j (mod N)  *)
(* so that the phase factor is exp(2 pi i phi_j / N) EXACTLY, and the         *)
(* displacement factor of image j must be evaluated at the rotated index      *)
(* h R_j (beta_j = R_j beta R_j').                                            *)
(* C08: the distinct images form the orbit; every orbit point is hit exactly  *)
(*      nsymop/|orbit| times (orbit-stabiliser) - the reason the weight       *)
(*      occ*multiplicity/nsymop reproduces the sum over the cell contents.    *)
(* C07: for every operation k: index h R_k and the exact phase shift          *)
(*      h . t_k (24ths): F(h R_k) = F(h) exp(-2 pi i h.t_k).                  *)
(* SfCases (generated): Cases = set of [t, N, p, h].                          *)
EXTENDS SgOps, Json, SfCases

VARIABLES cs, j, orb, phases
vars == <<cs, j, orb, phases>>
Tb == Tables[cs.t]
Init == cs \in Cases /\ j = 1 /\ orb = <<>> /\ phases = <<>>
(* one symmetry operation of the inner loop *)
Accumulate ==
   /\ j <= NOps(Tb)
   /\ LET q == ApplyOp(Op(Tb, j), cs.p, cs.N) IN
        /\ orb' = IF q \in DOMAIN orb
                    THEN [orb EXCEPT ![q].count = @ + 1]
                    ELSE [x \in DOMAIN orb \cup {q} |-> IF x = q THEN [count |-> 1, phase |-> Dot(cs.h, q) % cs.N, rot |-> j] ELSE orb[x]]
        /\ phases' = Append(phases, Dot(cs.h, q) % cs.N)
   /\ j' = j + 1 /\ UNCHANGED cs
Next == Accumulate
Spec == Init /\ [][Next]_vars /\ WF_vars(Next)

Done == j = NOps(Tb) + 1
Terminates == <>Done
(* orbit-stabiliser *)
OrbitStab == Done => \A q \in DOMAIN orb : orb[q].count * Cardinality(DOMAIN orb) = NOps(Tb)
(* closure makes F(hR_k) = F(h) e^{-2 pi i h.t_k}: composing with operation k permutes the operations *)
ComposePermutes == Done => \A k \in 1..Min(NOps(Tb), 12) :
     {Compose(Op(Tb, k), Op(Tb, i)) : i \in 1..NOps(Tb)} = Ops(Tb)
(* an extinct reflection: the bag of phases is invariant under a non-trivial shift, hence the sum of the phase factors vanishes *)
Count(s, e) == Cardinality({i \in 1..Len(s) : s[i] = e})
ExtinctCancels == (Done /\ Extinct(Tb, cs.h)) =>
     \E k \in 1..NOps(Tb) :
        /\ VecMat(cs.h, Tb.rot[k]) = cs.h /\ Dot(cs.h, Tb.trans[k]) % T24 # 0
        /\ LET sh == (Dot(cs.h, Tb.trans[k]) * (cs.N \div T24)) % cs.N IN
             \A e \in SeqToSet(phases) : Count(phases, e) = Count(phases, (e + sh) % cs.N)
(* Friedel: the phase indices of -h are the negatives *)
Friedel == Done => \A i \in 1..Len(phases) :
     Dot(VNeg(cs.h), ApplyOp(Op(Tb, i), cs.p, cs.N)) % cs.N = (cs.N - phases[i]) % cs.N

Emit == Done =>
  PrintT("@@" \o ToJson([cs |-> cs,
      orbit |-> {<<q, orb[q].count, orb[q].phase, orb[q].rot>> : q \in DOMAIN orb},
      extinct |-> Extinct(Tb, cs.h),
      ops |-> [k \in 1..NOps(Tb) |-> <<VecMat(cs.h, Tb.rot[k]), Dot(cs.h, Tb.trans[k]) % T24>>]]))
=============================================================================
