------------------------------- MODULE Flips -------------------------------
(* Detector orientation handling of xfab.detector:                          *)
(*   trans_orientation, image_flipping (images) and xy_to_detyz,            *)
(*   detyz_to_xy (pixel coordinates).                                       *)
(* A raw image is indexed img[x,y], x in 0..W-1, y in 0..H-1 (numpy shape   *)
(* (W,H)); pixel ids are x*100+y.  Images are functions from <<i,j>> to id  *)
(* together with their shape.  numpy's primitives are modelled as index     *)
(* maps and the code's compositions are modelled step by step, one action   *)
(* per primitive, in the order coded.                                       *)
(* REQUIREMENT (from the property): the coordinate map                      *)
(*   XyToDetyz(o,(x,y)) = swap( O.(x,y) + offset ),                         *)
(*   offset_i = (extent_i - 1) where row i of O has a -1, else 0,           *)
(* with extents (W,H) = (detz_size, dety_size); trans_orientation(forward)  *)
(* must store pixel (x,y) at that index, the inverse modes must undo the    *)
(* forward modes, DetyzToXy must invert XyToDetyz, and exactly the 8 signed *)
(* permutation matrices are valid orientations.                             *)
EXTENDS Integers, Sequences, FiniteSets, TLC, Json

CONSTANTS MaxW, MaxH

Trits == {-1, 0, 1}
Orients == {<<a, b, c, d>> : a \in Trits, b \in Trits, c \in Trits, d \in Trits}
Abs(x) == IF x < 0 THEN -x ELSE x

(* requirement: signed permutation matrices *)
ValidReq(o) == \/ (Abs(o[1]) = 1 /\ Abs(o[4]) = 1 /\ o[2] = 0 /\ o[3] = 0)
               \/ (Abs(o[2]) = 1 /\ Abs(o[3]) = 1 /\ o[1] = 0 /\ o[4] = 0)
(* the code's branch structure (same in all four functions) *)
ValidCode(o) == IF Abs(o[1]) = 1 THEN ~(Abs(o[4]) # 1 \/ o[2] # 0 \/ o[3] # 0)
                ELSE IF Abs(o[2]) = 1 THEN ~(Abs(o[3]) # 1 \/ o[1] # 0 \/ o[4] # 0)
                ELSE FALSE
ValidOrients == {o \in Orients : ValidReq(o)}

Img(W, H) == [p \in (0..W-1) \X (0..H-1) |-> p[1] * 100 + p[2]]

(* numpy primitives on (shape, data): a is [n0, n1, d] *)
NpTranspose(a) == [n0 |-> a.n1, n1 |-> a.n0,
                   d |-> [p \in (0..a.n1-1) \X (0..a.n0-1) |-> a.d[<<p[2], p[1]>>]]]
NpFlipLR(a) == [n0 |-> a.n0, n1 |-> a.n1,
                d |-> [p \in (0..a.n0-1) \X (0..a.n1-1) |-> a.d[<<p[1], a.n1 - 1 - p[2]>>]]]
NpFlipUD(a) == [n0 |-> a.n0, n1 |-> a.n1,
                d |-> [p \in (0..a.n0-1) \X (0..a.n1-1) |-> a.d[<<a.n0 - 1 - p[1], p[2]>>]]]
Apply(prim, a) == CASE prim = "T" -> NpTranspose(a) [] prim = "LR" -> NpFlipLR(a) [] prim = "UD" -> NpFlipUD(a)

(* the programs (sequences of primitives) the code executes *)
ProgTrans(o, dir) ==
  IF Abs(o[1]) = 1
    THEN <<"T">> \o (IF o[1] = -1 THEN (IF dir = "forward" THEN <<"LR">> ELSE <<"UD">>) ELSE <<>>)
               \o (IF o[4] = -1 THEN (IF dir = "forward" THEN <<"UD">> ELSE <<"LR">>) ELSE <<>>)
    ELSE (IF o[2] = -1 THEN <<"LR">> ELSE <<>>) \o (IF o[3] = -1 THEN <<"UD">> ELSE <<>>)
ProgFlip(o, dir) ==
  IF Abs(o[1]) = 1
    THEN (IF o[1] = -1 THEN <<"UD">> ELSE <<>>) \o (IF o[4] = -1 THEN <<"LR">> ELSE <<>>)
    ELSE <<"T">> \o (IF o[2] = -1 THEN (IF dir = "forward" THEN <<"UD">> ELSE <<"LR">>) ELSE <<>>)
               \o (IF o[3] = -1 THEN (IF dir = "forward" THEN <<"LR">> ELSE <<"UD">>) ELSE <<>>)
Prog(f, o, dir) == IF f = "trans" THEN ProgTrans(o, dir) ELSE ProgFlip(o, dir)

(* requirement: coordinate map, in any integer unit (pixels or quarter pixels, u = units per pixel) *)
XyToDetyz(o, xy, W, H, u) ==
  LET v1 == o[1]*xy[1] + o[2]*xy[2]        \* row 1 of O
      v2 == o[3]*xy[1] + o[4]*xy[2]
      e1 == o[1]*(W-1) + o[2]*(H-1)        \* row 1 applied to the extents
      e2 == o[3]*(W-1) + o[4]*(H-1)
      w1 == v1 - (IF e1 < 0 THEN e1 ELSE 0) * u
      w2 == v2 - (IF e2 < 0 THEN e2 ELSE 0) * u
  IN <<w2, w1>>                             \* (dety, detz) = swap
(* the inverse of that map: undo the swap and the offsets, then apply O^-1 = O' *)
DetyzToXy(o, yz, W, H, u) ==
  LET e1 == o[1]*(W-1) + o[2]*(H-1)
      e2 == o[3]*(W-1) + o[4]*(H-1)
      v1 == yz[2] + (IF e1 < 0 THEN e1 ELSE 0) * u
      v2 == yz[1] + (IF e2 < 0 THEN e2 ELSE 0) * u
  IN <<o[1]*v1 + o[3]*v2, o[2]*v1 + o[4]*v2>>

(* the arithmetic of the two coordinate functions as coded (clip(v,-max,0) = min(v,0) here) *)
Min0(x) == IF x < 0 THEN x ELSE 0
CodeXyToDetyz(o, xy, W, H, u) ==
  LET c1 == o[1]*xy[1] + o[2]*xy[2] - Min0(o[1]*(W-1) + o[2]*(H-1)) * u
      c2 == o[3]*xy[1] + o[4]*xy[2] - Min0(o[3]*(W-1) + o[4]*(H-1)) * u
  IN <<c2, c1>>
(* detyz_to_xy: coor := (detz,dety); omat := inverse (= transpose for signed permutations);
   det_size := |O.(detz_size-1, dety_size-1)| (the extents in the (detz,dety) frame; C11 repair) *)
CodeDetyzToXy(o, yz, W, H, u) ==
  LET c  == <<yz[2], yz[1]>>
      d1 == Abs(o[1]*(W-1) + o[2]*(H-1))
      d2 == Abs(o[3]*(W-1) + o[4]*(H-1))
      x  == o[1]*c[1] + o[3]*c[2] - Min0(o[1]*d1 + o[3]*d2) * u
      y  == o[2]*c[1] + o[4]*c[2] - Min0(o[2]*d1 + o[4]*d2) * u
  IN <<x, y>>

---------------------------------------------------------------------------
VARIABLES f, o, W, H, phase, prog, a
vars == <<f, o, W, H, phase, prog, a>>

Init == /\ f \in {"trans", "flip"}
        /\ o \in ValidOrients
        /\ W \in 1..MaxW /\ H \in 1..MaxH
        /\ phase = "forward"
        /\ prog = Prog(f, o, "forward")
        /\ a = [n0 |-> W, n1 |-> H, d |-> Img(W, H)]

(* one numpy primitive *)
Step == /\ prog # <<>>
        /\ a' = Apply(Head(prog), a)
        /\ prog' = Tail(prog)
        /\ UNCHANGED <<f, o, W, H, phase>>
(* the forward call returned; call the inverse mode on its result *)
CallInverse == /\ prog = <<>> /\ phase = "forward"
               /\ phase' = "inverse"
               /\ prog' = Prog(f, o, "inverse")
               /\ UNCHANGED <<f, o, W, H, a>>
Next == Step \/ CallInverse
Spec == Init /\ [][Next]_vars

ForwardDone == prog = <<>> /\ phase = "forward"
InverseDone == prog = <<>> /\ phase = "inverse"

(* trans_orientation(forward) stores raw pixel (x,y) at XyToDetyz(x,y) *)
TransStoresAtMap == (ForwardDone /\ f = "trans") =>
   \A x \in 0..W-1 : \A y \in 0..H-1 :
      LET q == XyToDetyz(o, <<x, y>>, W, H, 1) IN
        /\ q[1] \in 0..a.n0-1 /\ q[2] \in 0..a.n1-1
        /\ a.d[q] = x * 100 + y
(* the pixel map is a bijection onto the index rectangle of the transformed image *)
MapBijective == (ForwardDone /\ f = "trans") =>
   Cardinality({XyToDetyz(o, <<x, y>>, W, H, 1) : x \in 0..W-1, y \in 0..H-1}) = W * H
(* inverse mode undoes forward mode, both functions *)
InverseUndoes == InverseDone => (a.n0 = W /\ a.n1 = H /\ a.d = Img(W, H))
(* DetyzToXy is the inverse of XyToDetyz, at quarter-pixel resolution *)
CoordInverse == ForwardDone =>
   \A x \in 0..(W-1)*4 : \A y \in 0..(H-1)*4 :
      DetyzToXy(o, XyToDetyz(o, <<x, y>>, W, H, 4), W, H, 4) = <<x, y>>
(* the coded arithmetic implements the requirement *)
CodeCoordsAgree == ForwardDone =>
   \A x \in 0..(W-1)*4 : \A y \in 0..(H-1)*4 :
      /\ CodeXyToDetyz(o, <<x, y>>, W, H, 4) = XyToDetyz(o, <<x, y>>, W, H, 4)
      /\ CodeDetyzToXy(o, XyToDetyz(o, <<x, y>>, W, H, 4), W, H, 4) = <<x, y>>
(* validation: the code's branches accept exactly the signed permutation matrices *)
ValidationAgrees == \A m \in Orients : ValidCode(m) = ValidReq(m)

ToRows(b) == [i \in 1..b.n0 |-> [j \in 1..b.n1 |-> b.d[<<i-1, j-1>>]]]
Emit == (ForwardDone \/ InverseDone) =>
   PrintT("@@" \o ToJson([f |-> f, o |-> o, W |-> W, H |-> H, phase |-> phase, out |-> ToRows(a),
                           map |-> IF ForwardDone /\ f = "trans"
                                     THEN [x \in 1..W |-> [y \in 1..H |-> XyToDetyz(o, <<x-1, y-1>>, W, H, 1)]]
                                     ELSE <<>>,
                           (* quarter-pixel coordinates: <<xy, yz>> pairs, units of 1/4 pixel *)
                           qmap |-> IF ForwardDone /\ f = "trans"
                                     THEN {<<<<x, y>>, XyToDetyz(o, <<x, y>>, W, H, 4)>> :
                                             x \in {0, 1, (W-1)*2 + 1, (W-1)*4} \cap 0..(W-1)*4,
                                             y \in {0, 3, (H-1)*2, (H-1)*4} \cap 0..(H-1)*4}
                                     ELSE {},
                           invalid |-> IF W = 1 /\ H = 1 /\ f = "trans" /\ ForwardDone /\ o = <<1,0,0,1>>
                                         THEN {m \in Orients : ~ValidReq(m)} ELSE {}]))
=============================================================================
