------------------------------ MODULE Detector ------------------------------
(* Detector geometry of xfab.detector (det_coor, det_coor2, detector_to_lab,  *)
(* det_v) and tools/laue.detect_tilt, pixel-first so that no division is      *)
(* needed: a pixel on the tilted detector and a ray direction are chosen, the *)
(* grain position that makes the ray hit exactly that pixel follows.          *)
(*   tilt   R = Rx(tx) Ry(ty) Rz(tz)           (Pythagorean angles, exact)    *)
(*   normal n = R e_x ;  detector point P = (L,0,0) + R (0, py(dety-y0), pz(detz-z0)) *)
(*   ray    v = (cos 2th, -sin 2th sin eta, sin 2th cos eta)                  *)
(*   grain  pos = P - t v ,  t > 0                                            *)
(* TLC checks that R is a proper rotation, v a unit vector, n.v > 0 (the ray  *)
(* travels towards the detector) and emits R, v exactly; lengths, pixel       *)
(* sizes, the pixel and t are rationals chosen by the harness, which forms P  *)
(* and pos with exact fractions (their numerators do not fit 32 bits).        *)
(* DetCases (generated): Cases = set of [tx, ty, tz, tth, eta].               *)
EXTENDS IntAlg, TLC, Json, DetCases

Rx(a) == << <<a[3], 0, 0>>, <<0, a[1], -a[2]>>, <<0, a[2], a[1]>> >>
Ry(a) == << <<a[1], 0, a[2]>>, <<0, a[3], 0>>, <<-a[2], 0, a[1]>> >>
Rz(a) == << <<a[1], -a[2], 0>>, <<a[2], a[1], 0>>, <<0, 0, a[3]>> >>

VARIABLES cs, stage
vars == <<cs, stage>>
Init == cs \in Cases /\ stage = "chosen"
Project == stage = "chosen" /\ stage' = "projected" /\ UNCHANGED cs
Next == Project
Spec == Init /\ [][Next]_vars

RN == MatMul(Rx(cs.tx), MatMul(Ry(cs.ty), Rz(cs.tz)))
Rden == cs.tx[3] * cs.ty[3] * cs.tz[3]
(* v numerators over tth[3]*eta[3] *)
VN == << cs.tth[1] * cs.eta[3], -cs.tth[2] * cs.eta[2], cs.tth[2] * cs.eta[1] >>
Vden == cs.tth[3] * cs.eta[3]
Normal == Col(RN, 1)                       \* n = R e_x, over Rden

TiltProper == (Rden <= 26000) => (MatMul(Transpose(RN), RN) = MatScale(Rden * Rden, I3))
RayUnit == (cs.tth[3] <= 1500 /\ Vden <= 46000) => Dot(VN, VN) = Vden * Vden
(* the scattered ray goes towards the detector plane (tilts <= 0.3 rad, 2theta < 60 degrees) *)
TowardsDetector == (Rden <= 30000 /\ Vden <= 15000) => Dot(Normal, VN) > 0

Emit == stage = "projected" =>
   PrintT("@@" \o ToJson([cs |-> cs, R |-> RN, rden |-> Rden, v |-> VN, vden |-> Vden]))
=============================================================================
