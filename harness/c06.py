"""C06 - genhkl_unique lists one reflection per Laue family, sorted by true sintl.

Own TLC run of spec/GenHkl.tla (own seed-derived instances).  The model's requirement: the unit list has
exactly one member of every Laue family of the allowed set, nothing else; expansion gives the allowed set.
Replay: genhkl_unique and genhkl_all with output_stl True and False, tools and laue.
"""
import collections
import math
import os
import random
import warnings

import common
import c05
import genhkl_lib as gl

ASSUME = c05.ASSUME + [
    "sin(theta)/lambda oracle: sqrt(c*Q*(h)/4) with Q* the exact integer form from the model and c the scale used to build the float cell; compared at 1e-9 relative",
]


def orbit(tab, h):
    return set(gl.expand(tab, [h]))


def exhaustive_segments(v, tabs, wd, rng):
    """thorough: one symmorphic group per (Laue class, setting) x EVERY conforming integer reciprocal metric of a box x two shells:
    TLC decides whether the segment tables are sound asymmetric units (one member per Laue family, expansion = allowed set) and
    where the early exit loses families; returns (states, transitions, instances, unsound, early)"""
    import itertools
    reps = {}
    for i, t in enumerate(tabs):
        k = (t["Laue"], t["cell_choice"] == "rhombohedral")
        if k not in reps or t["nsymop"] < tabs[reps[k]]["nsymop"]:
            reps[k] = i
    inst = []
    for (laue, rh), ti in sorted(reps.items()):
        t = tabs[ti]
        sysm = t["crystal_system"]
        mets = set()
        D = [3, 4, 5, 6]
        if sysm == "triclinic":
            for a, b, c in itertools.product(D, D, D):
                for d, e, f in itertools.product([-2, -1, 0, 1, 2], repeat=3):
                    mets.add((a, b, c, d, e, f))
        elif sysm == "monoclinic":
            for a, b, c in itertools.product(D, D, D):
                for e in range(-3, 4):
                    mets.add((a, b, c, 0, e, 0))
        elif sysm == "orthorhombic":
            for a, b, c in itertools.product(D + [7, 9], repeat=3):
                mets.add((a, b, c, 0, 0, 0))
        elif sysm == "tetragonal":
            for a, c in itertools.product([3, 4, 5, 6, 7, 9], repeat=2):
                mets.add((a, a, c, 0, 0, 0))
        elif sysm in ("trigonal", "hexagonal") and not rh:
            for m, c in itertools.product([1, 2, 3, 4], [2, 3, 4, 5, 7, 9]):
                mets.add((2 * m, 2 * m, c, 0, 0, m))
        elif rh:
            for m in [4, 5, 6, 7, 8]:
                for q in range(-m // 2 + 1, m):
                    mets.add((m, m, m, q, q, q))
        else:
            for a in [3, 4, 5, 6, 7, 9]:
                mets.add((a, a, a, 0, 0, 0))
        for m in sorted(mets):
            if gl.spd(list(m)) and gl.gram_ok(list(m)):
                for K in (17, 30):
                    inst.append({"t": ti + 1, "met": list(m), "K": K, "Kmin": 0})
    sub = os.path.join(wd, "exh")
    os.makedirs(sub, exist_ok=True)
    import shutil
    shutil.copy(os.path.join(wd, "XfabTables.tla"), sub)
    common.write_data_module(sub, "GenHklCases", {"Instances": inst})
    r = common.run_tlc("GenHkl", "MC_GenHkl.cfg", sub, timeout=6000, heap="20g")
    unsound, early = [], 0
    for x in r.records:
        if x["ext"] != "sysabs":
            continue
        J = x["judge"]
        I = inst[x["inst"] - 1]
        if not J["unit_ops_sound"] or J["overlap"]:
            unsound.append({"sg": tabs[I["t"] - 1]["no"], "laue": tabs[I["t"] - 1]["Laue"], "metric": I["met"], "K": I["K"]})
        if c05.tset(x["H"]) != c05.tset(J["unit_sys"]):
            early += 1
    shutil.rmtree(sub, ignore_errors=True)
    for u in unsound[:10]:
        v.violation("segment table of Laue class %s is not a sound asymmetric unit on reciprocal metric %s (Q* <= %d): the traversal cannot "
                    "return one reflection per Laue family there" % (u["laue"], u["metric"], u["K"]), u)
    return r.distinct, r.generated, len(inst), len(unsound), early


def run(tier, seed):
    warnings.simplefilter("ignore")
    v = common.Verdict("C06", tier, seed)
    wd, tabs, inst, r, by, rng, _ = c05.build(tier, seed + 1000003, "C06")
    calls, meta = [], []
    for i, I in enumerate(inst, start=1):
        t = tabs[I["t"] - 1]
        c = 0.01 * rng.uniform(0.5, 2.0)
        cell = gl.cell_from_recip_metric(I["met"], c)
        if I.get("pseudo"):
            cell[1] *= (1 + 4e-8)          # b a hair longer: among exact ties the reflection with the larger |k| now comes first
        smin, smax = gl.bounds(I["K"], I["Kmin"], c, tight=0 if (I.get("pseudo") or I.get("long") or I.get("needle") or I.get("huge")) else i % 5)
        mod = "tools" if (i % 2 or tier == "thorough") else "laue"
        mods = ["tools", "laue"] if (tier == "thorough" or I.get("long") or I.get("pseudo") or I.get("needle") or I.get("huge")) else [mod]
        for m in mods:
            kw = dict(sgno=t["no"], cell_choice=t["setting"]) if rng.random() < 0.5 else dict(sgname=t["name_text"])
            for func, ostl in (("genhkl_unique", True), ("genhkl_unique", False), ("genhkl_all", True), ("genhkl_all", False)):
                calls.append((m, func, cell, smin, smax, kw, rng.randrange(1 << 30), ostl))
                meta.append((i, m, func, ostl, c, kw))
    results = common.pmap(gl.call_gen, calls)
    per = collections.defaultdict(dict)
    for (i, m, func, ostl, c, kw), res in zip(meta, results):
        per[(i, m)][(func, ostl)] = (res, c, kw)
    n_early = 0

    def Qf(met, h):
        return (met[0] * h[0] * h[0] + met[1] * h[1] * h[1] + met[2] * h[2] * h[2]
                + 2 * met[3] * h[1] * h[2] + 2 * met[4] * h[0] * h[2] + 2 * met[5] * h[0] * h[1])

    for (i, m), d in per.items():
        I = inst[i - 1]
        t = tabs[I["t"] - 1]
        J = by[i]["sysabs"]["judge"]
        A = c05.tset(J["allowed"])
        c = d[("genhkl_unique", True)][1]
        kw = d[("genhkl_unique", True)][2]
        desc = {"sg": [t["no"], t["setting"]], "recip_metric": I["met"], "K": I["K"], "Kmin": I["Kmin"],
                "module": m, "by": kw, "scale": c, "families": len(J["unit_ops"]), "allowed": len(A)}
        v.case((I["t"], tuple(I["met"]), I["K"], I["Kmin"]), nontrivial=len(A) > 0,
               sample=desc if len(v.samples) < 3 else None)
        tag = "Sg%d %s, recip metric %s, %d<Q<=%d, xfab.%s" % (t["no"], t["setting"], I["met"], I["Kmin"], I["K"], m)
        bad = [k for k, val in d.items() if isinstance(val[0], str)]
        if bad:
            v.violation("%s raised: %s" % (bad, d[bad[0]][0]), desc)
            continue
        rows = {}
        for k, (res, _c, _kw) in d.items():
            ri = gl.rows_to_int(res)
            if ri is None and len(res) > 0:
                v.violation("%s%s returned non-integer indices (%s)" % (k[0], "(stl)" if k[1] else "", tag), desc)
            rows[k] = ri or []
        # shapes: 4 columns with output_stl, 3 without
        for k, (res, _c, _kw) in d.items():
            if len(res) and len(res[0]) != (4 if k[1] else 3):
                v.violation("%s(output_stl=%s) returned %d columns (%s)" % (k[0], k[1], len(res[0]), tag), desc)
        U = rows[("genhkl_unique", True)]
        if rows[("genhkl_unique", False)] != U:
            v.violation("genhkl_unique differs between output_stl=True and False (%s)" % tag, desc)
        # without the fourth column the rows are the same reflections, in non-decreasing sin(theta)/lambda order as well
        qa = [Qf(I["met"], h) for h in rows[("genhkl_all", False)]]
        if collections.Counter(rows[("genhkl_all", False)]) != collections.Counter(rows[("genhkl_all", True)]):
            v.violation("genhkl_all differs between output_stl=True and False as a set of reflections (%s)" % tag, desc)
        elif not I.get("pseudo") and any(qa[j] > qa[j + 1] for j in range(len(qa) - 1)):
            v.violation("genhkl_all(output_stl=False) rows are not in non-decreasing sin(theta)/lambda order (%s)" % tag, desc)
        # ordering and fourth column, both functions
        for k in (("genhkl_unique", True), ("genhkl_all", True)):
            res = d[k][0]
            qs = [Qf(I["met"], h) for h in rows[k]]
            if I.get("pseudo"):
                # exact order on the detuned cell: Q' = g11 h^2 + g22 k^2/(1+eps)^2 + g33 l^2, eps = 4e-8, in exact fractions
                from fractions import Fraction
                e2 = (1 + Fraction(4, 10 ** 8)) ** 2
                qx = [I["met"][0] * h[0] * h[0] + Fraction(I["met"][1] * h[1] * h[1]) / e2 + I["met"][2] * h[2] * h[2] for h in rows[k]]
                if any(qx[j] > qx[j + 1] for j in range(len(qx) - 1)):
                    j = [j for j in range(len(qx) - 1) if qx[j] > qx[j + 1]][0]
                    v.violation("%s rows are not in non-decreasing sin(theta)/lambda order on a pseudo-tetragonal cell (b = a(1+4e-8)): "
                                "%s comes before %s (%s)" % (k[0], list(rows[k][j]), list(rows[k][j + 1]), tag), desc)
            elif any(qs[j] > qs[j + 1] for j in range(len(qs) - 1)):
                v.violation("%s rows are not in non-decreasing sin(theta)/lambda order (%s)" % (k[0], tag), desc)
            for row, q in zip(res, qs):
                want = math.sqrt(c * q / 4.0)
                if not (abs(row[3] - want) <= (1e-9 if not I.get("pseudo") else 1e-6) * want):
                    v.violation("%s fourth column %r is not sintl of hkl %s (%.12g) (%s)" % (k[0], row[3], row[:3], want, tag), desc)
                    break
            if any(not (I["Kmin"] < q <= I["K"]) for q in qs):
                v.violation("%s returned rows outside the shell (sintlmin exclusive, sintlmax inclusive) (%s)" % (k[0], tag), desc)
        # genhkl_all is the union of the families of genhkl_unique
        allrows = collections.Counter(rows[("genhkl_all", True)])
        fam = collections.Counter(gl.expand(t, U))
        if allrows != fam:
            v.violation("genhkl_all is not the union of the Laue families of genhkl_unique: %d vs %d rows (%s)" %
                        (sum(allrows.values()), sum(fam.values()), tag), desc)
        # one member of every family of the allowed set and nothing else
        cu = collections.Counter(U)
        ok = set(cu) <= A and all(n == 1 for n in cu.values())
        covered = set()
        if ok:
            for h in U:
                o = orbit(t, h)
                if covered & o:
                    ok = False
                    break
                covered |= o
            ok = ok and covered == A
        if ok:
            continue
        # classification against the traversal model
        rs, ro = by[i]["sysabs"], by[i]["operators"]
        Hs = collections.Counter([tuple(h) for h in rs["H"]] + [tuple(h) for h in rs["dup"]])
        Ho = collections.Counter([tuple(h) for h in ro["H"]] + [tuple(h) for h in ro["dup"]])
        unit_same = c05.tset(J["unit_sys"]) == c05.tset(J["unit_ops"])
        if cu == Hs and Hs == Ho and unit_same and J["unit_ops_sound"] and set(Ho) != c05.tset(J["unit_ops"]) \
                and set(Ho) <= c05.tset(J["unit_ops"]) and v.is_listed(gl.F_EARLY):
            v.known_finding(gl.F_EARLY)
            n_early += 1
            continue
        miss = len(A - covered) if covered else len(A)
        v.violation("genhkl_unique is not one representative per Laue family of the allowed reflections: "
                    "%d rows, %d families expected, %d allowed reflections not covered, %d rows not allowed (%s)" %
                    (len(U), len(J["unit_ops"]), miss, len(set(cu) - A), tag), desc)
    if v.violations:
        seen = {}
        for q in v.violations:
            seen.setdefault((tuple(q["case"].get("sg", [])), q["what"][:40]), q)
        v.notes.append("%d violating observations collapsed to %d" % (len(v.violations), len(seen)))
        v.violations = list(seen.values())
        v.max_replays = 60
    exh = None
    if tier == "thorough":
        exh = exhaustive_segments(v, tabs, wd, rng)
    cov = {"states": r.distinct + (exh[0] if exh else 0), "transitions": r.generated + (exh[1] if exh else 0),
           "exhaustive_segment_soundness": None if exh is None else {"instances": exh[2], "unsound": exh[3], "instances_where_early_exit_loses_families": exh[4]},
           "traces_validated_against_impl": len(calls),
           "instances": len(inst), "settings": len(tabs), "tlc_wall_s": round(r.wall, 1),
           "early_exit_instances_met": n_early, "exhaustive": False,
           "rule": "instance = (setting, conforming integer reciprocal metric, shell); genhkl_unique with and without "
                   "output_stl and genhkl_all with output_stl per instance; non-trivial = non-empty allowed set"}
    cov["needle_cell_calls"] = c05.needle_check(v, tabs, rng, "C06")
    return v.finish("model_checking", cov, ASSUME)


def replay(path, seed):
    return run("quick", seed)
