"""C06 - genhkl_unique lists one reflection per Laue family, sorted by true sintl.

Own TLC run of spec/GenHkl.tla (own seed-derived instances).  The model's requirement: the unit list has
exactly one member of every Laue family of the allowed set, nothing else; expansion gives the allowed set.
Replay: genhkl_unique and genhkl_all with output_stl True and False, tools and laue.
"""
import collections
import math
import random
import warnings

import common
import c05
import genhkl_lib as gl

ASSUME = c05.ASSUME + [
    "sin(theta)/lambda oracle: sqrt(c*Q*(h)/4) with Q* the exact integer form from the model and c the scale used to build the float cell; compared at 1e-9 relative",
]


def orbit(tab, h):
    return set(gl.expand(tab, [h]))


def run(tier, seed):
    warnings.simplefilter("ignore")
    v = common.Verdict("C06", tier, seed)
    wd, tabs, inst, r, by, rng, _ = c05.build(tier, seed + 1000003, "C06")
    calls, meta = [], []
    for i, I in enumerate(inst, start=1):
        t = tabs[I["t"] - 1]
        c = 0.01 * rng.uniform(0.5, 2.0)
        cell = gl.cell_from_recip_metric(I["met"], c)
        smin, smax = gl.bounds(I["K"], I["Kmin"], c)
        mod = "tools" if (i % 2 or tier == "thorough") else "laue"
        mods = ["tools", "laue"] if tier == "thorough" else [mod]
        for m in mods:
            kw = dict(sgno=t["no"], cell_choice=t["setting"]) if rng.random() < 0.5 else dict(sgname=t["name_text"])
            for func, ostl in (("genhkl_unique", True), ("genhkl_unique", False), ("genhkl_all", True)):
                calls.append((m, func, cell, smin, smax, kw, rng.randrange(1 << 30), ostl))
                meta.append((i, m, func, ostl, c, kw))
    results = common.pmap(gl.call_gen, calls)
    per = collections.defaultdict(dict)
    for (i, m, func, ostl, c, kw), res in zip(meta, results):
        per[(i, m)][(func, ostl)] = (res, c, kw)
    n_early = 0

    def Qf(met, h):
        return (met[0] * h[0] * h[0] + met[1] * h[1] * h[1] + met[2] * h[2] * h[2]
                + 2 * met[3] * h[1] * h[2] + 2 * met[4] * h[0] * h[2] + 2 * met[5] * h[0] * h[1])

    for (i, m), d in per.items():
        I = inst[i - 1]
        t = tabs[I["t"] - 1]
        J = by[i]["sysabs"]["judge"]
        A = c05.tset(J["allowed"])
        c = d[("genhkl_unique", True)][1]
        kw = d[("genhkl_unique", True)][2]
        desc = {"sg": [t["no"], t["setting"]], "recip_metric": I["met"], "K": I["K"], "Kmin": I["Kmin"],
                "module": m, "by": kw, "scale": c, "families": len(J["unit_ops"]), "allowed": len(A)}
        v.case((I["t"], tuple(I["met"]), I["K"], I["Kmin"]), nontrivial=len(A) > 0,
               sample=desc if len(v.samples) < 3 else None)
        tag = "Sg%d %s, recip metric %s, %d<Q<=%d, xfab.%s" % (t["no"], t["setting"], I["met"], I["Kmin"], I["K"], m)
        bad = [k for k, val in d.items() if isinstance(val[0], str)]
        if bad:
            v.violation("%s raised: %s" % (bad, d[bad[0]][0]), desc)
            continue
        rows = {}
        for k, (res, _c, _kw) in d.items():
            ri = gl.rows_to_int(res)
            if ri is None and len(res) > 0:
                v.violation("%s%s returned non-integer indices (%s)" % (k[0], "(stl)" if k[1] else "", tag), desc)
            rows[k] = ri or []
        # shapes: 4 columns with output_stl, 3 without
        for k, (res, _c, _kw) in d.items():
            if len(res) and len(res[0]) != (4 if k[1] else 3):
                v.violation("%s(output_stl=%s) returned %d columns (%s)" % (k[0], k[1], len(res[0]), tag), desc)
        U = rows[("genhkl_unique", True)]
        if rows[("genhkl_unique", False)] != U:
            v.violation("genhkl_unique differs between output_stl=True and False (%s)" % tag, desc)
        # ordering and fourth column, both functions
        for k in (("genhkl_unique", True), ("genhkl_all", True)):
            res = d[k][0]
            qs = [Qf(I["met"], h) for h in rows[k]]
            if any(qs[j] > qs[j + 1] for j in range(len(qs) - 1)):
                v.violation("%s rows are not in non-decreasing sin(theta)/lambda order (%s)" % (k[0], tag), desc)
            for row, q in zip(res, qs):
                want = math.sqrt(c * q / 4.0)
                if abs(row[3] - want) > 1e-9 * want:
                    v.violation("%s fourth column %r is not sintl of hkl %s (%.12g) (%s)" % (k[0], row[3], row[:3], want, tag), desc)
                    break
            if any(not (I["Kmin"] < q <= I["K"]) for q in qs):
                v.violation("%s returned rows outside the shell (sintlmin exclusive, sintlmax inclusive) (%s)" % (k[0], tag), desc)
        # genhkl_all is the union of the families of genhkl_unique
        allrows = collections.Counter(rows[("genhkl_all", True)])
        fam = collections.Counter(gl.expand(t, U))
        if allrows != fam:
            v.violation("genhkl_all is not the union of the Laue families of genhkl_unique: %d vs %d rows (%s)" %
                        (sum(allrows.values()), sum(fam.values()), tag), desc)
        # one member of every family of the allowed set and nothing else
        cu = collections.Counter(U)
        ok = set(cu) <= A and all(n == 1 for n in cu.values())
        covered = set()
        if ok:
            for h in U:
                o = orbit(t, h)
                if covered & o:
                    ok = False
                    break
                covered |= o
            ok = ok and covered == A
        if ok:
            continue
        # classification against the traversal model
        rs, ro = by[i]["sysabs"], by[i]["operators"]
        Hs = collections.Counter([tuple(h) for h in rs["H"]] + [tuple(h) for h in rs["dup"]])
        Ho = collections.Counter([tuple(h) for h in ro["H"]] + [tuple(h) for h in ro["dup"]])
        unit_same = c05.tset(J["unit_sys"]) == c05.tset(J["unit_ops"])
        if cu == Hs and Hs == Ho and unit_same and J["unit_ops_sound"] and set(Ho) != c05.tset(J["unit_ops"]) \
                and set(Ho) <= c05.tset(J["unit_ops"]) and v.is_listed(gl.F_EARLY):
            v.known_finding(gl.F_EARLY)
            n_early += 1
            continue
        miss = len(A - covered) if covered else len(A)
        v.violation("genhkl_unique is not one representative per Laue family of the allowed reflections: "
                    "%d rows, %d families expected, %d allowed reflections not covered, %d rows not allowed (%s)" %
                    (len(U), len(J["unit_ops"]), miss, len(set(cu) - A), tag), desc)
    if v.violations:
        seen = {}
        for q in v.violations:
            seen.setdefault((tuple(q["case"].get("sg", [])), q["what"][:40]), q)
        v.notes.append("%d violating observations collapsed to %d" % (len(v.violations), len(seen)))
        v.violations = list(seen.values())
        v.max_replays = 60
    cov = {"states": r.distinct, "transitions": r.generated, "traces_validated_against_impl": len(calls),
           "instances": len(inst), "settings": len(tabs), "tlc_wall_s": round(r.wall, 1),
           "early_exit_instances_met": n_early, "exhaustive": False,
           "rule": "instance = (setting, conforming integer reciprocal metric, shell); genhkl_unique with and without "
                   "output_stl and genhkl_all with output_stl per instance; non-trivial = non-empty allowed set"}
    return v.finish("model_checking", cov, ASSUME)


def replay(path, seed):
    return run("quick", seed)
