"""C02 - orientation U, metric B and UBI convert into each other without loss.

TLC (spec/Orient.tla): abstract value (integer metric G, Cayley rotation p/q); paths through u_to_ubi, ubi_to_u,
ubi_to_cell, ubi_to_u_b, ub_to_u_b, ubi_to_rod, u_to_rod, rod_to_u; model-level: Cayley transforms are proper
rotations, metric identities.  Each path is stepped through both modules, every intermediate result compared with
the exact value (U = N'/D entries, UBI.UBI' = uG, B'B = adj G/(u det G), Rodrigues vector p/q, the six cell
parameters).  ub_to_u_b is also run on general integer matrices with det > 0 (oracle B'B = M'M in integers).
"""
import random
import warnings

import common
import genhkl_lib as gl
import lattice_lib as L

ASSUME = [
    "rotations are Cayley transforms of integer Rodrigues vectors (dense in SO(3)), incl. axis-aligned and 180-degree ones; "
    "cells as in C01; uniqueness of the QR split is Cholesky's theorem (the check verifies the stated defining conditions)",
    "tolerance 1e-9 (absolute for rotation entries, relative for metric projections)",
]


def draw_metric(rng):
    while True:
        m = [rng.choice([4, 5, 6, 7, 9, 12]) for _ in range(3)] + [rng.randint(-4, 4) for _ in range(3)]
        if gl.spd(m) and gl.gram_ok(m):
            return m


def gcd3(p, q):
    from math import gcd
    g = 0
    for x in list(p) + [q]:
        g = gcd(g, abs(x))
    return g


def draw_rotation(rng, big):
    while True:
        p = [rng.randint(-big, big) for _ in range(3)]
        q = rng.randint(0, big)
        if (p == [0, 0, 0] and q == 0) or gcd3(p, q) != 1:
            continue
        return p, q


AXIS = [([0, 0, 0], 1), ([1, 0, 0], 1), ([0, 1, 0], 1), ([0, 0, 1], 1), ([-1, 0, 0], 1), ([0, -1, 0], 1), ([0, 0, -1], 1),
        ([1, 0, 0], 0), ([0, 1, 0], 0), ([0, 0, 1], 0), ([1, 1, 0], 0), ([1, -1, 0], 0), ([1, 0, 1], 0), ([1, 0, -1], 0),
        ([0, 1, 1], 0), ([0, 1, -1], 0), ([1, 1, 1], 1), ([-1, 1, 1], 1), ([1, -1, 1], 1), ([1, 1, -1], 1),
        ([-1, -1, 1], 1), ([-1, 1, -1], 1), ([1, -1, -1], 1), ([-1, -1, -1], 1)]      # the 24 axis-aligned rotations


def worker(a):
    """every fourth behaviour is replayed with xfab.CHECKS.activated = False (restored afterwards): what a conversion returns for a
    valid input does not depend on the switch"""
    rec, us = a
    import xfab
    off = (rec["D"] + len(rec["path"]) + int(rec["G"][0])) % 4 == 0
    was = xfab.CHECKS.activated
    try:
        if off:
            xfab.CHECKS.activated = False
        n, out = _worker(rec, us)
        if off:
            out = [o + " [input checks switched off]" for o in out]
        return n, out
    finally:
        xfab.CHECKS.activated = was


def _worker(rec, us):
    import importlib
    import numpy as np
    out = []
    n = 0
    G, det, adj = rec["G"], rec["det"], rec["adj"]
    Uex = np.array(rec["N"], dtype=float).T / rec["D"]
    rod = [x / rec["q"] for x in rec["p"]] if rec["q"] != 0 else None
    for modname in ("tools", "laue"):
        mod = importlib.import_module("xfab." + modname)
        w = L.W[modname]
        w1 = L.TWO_PI if w else 1.0
        for u in us:
            cell0 = L.as_container(L.cell_from_metric(G, u), rec["D"] + len(rec["path"]))
            rmet = w1 * w1 * L.sym([x / (u * det) for x in adj])
            tag = "xfab.%s metric %s u=%.4g rodrigues %s/%s" % (modname, G, u, rec["p"], rec["q"])
            rep = "U"
            cur = Uex

            def CALL(f, *args):
                r, m_ = L.twice(f, *args)
                if m_:
                    out.append(m_ + " (%s)" % tag)
                return r

            def checkUB(U, B, what):
                v = []
                if not L.close(U, Uex, scale=1.0):
                    v.append("%s: U differs from the rotation it was built from by %.3g (%s)" % (what, float(np.abs(np.asarray(U) - Uex).max()), tag))
                if not L.upper_pos(B):
                    v.append("%s: B is not upper triangular with positive diagonal (%s)" % (what, tag))
                if not L.close(np.asarray(B).T.dot(B), rmet):
                    v.append("%s: B'B differs from the reciprocal metric tensor (%s)" % (what, tag))
                return v
            try:
                for step in rec["path"]:
                    n += 1
                    if step == "u_to_ubi":
                        if (rec["D"] + n) % 3 == 0 and hasattr(cur, "tolist"):
                            cur = cur.tolist()             # a rotation given as a nested list is a matrix too
                        ubi, rep_msg = L.twice(mod.u_to_ubi, cur, cell0)
                        ubi = np.asarray(ubi, dtype=float)
                        if rep_msg:
                            out.append(rep_msg + " (%s)" % tag)
                        if not L.close(ubi.dot(ubi.T), u * L.sym(G)):
                            out.append("u_to_ubi: UBI.UBI' is not the direct metric tensor - rows are not the lattice vectors (%s)" % tag)
                        B = np.asarray(mod.form_b_mat(cell0), dtype=float)
                        for h in ([1, 0, 0], [0, 1, 0], [0, 0, 1], [1, -2, 3]):
                            g = Uex.dot(B).dot(np.array(h, dtype=float))
                            if not L.close(ubi.dot(g), w1 * np.array(h, dtype=float), scale=w1 * 3):
                                out.append("u_to_ubi: UBI.(U.B.hkl) = %s, expected %s%s (%s)" % (ubi.dot(g).tolist(), "2pi*" if w else "", h, tag))
                                break
                        cur, rep = ubi, "ubi"
                    elif step == "ubi_to_u":
                        U, rep_msg = L.twice(mod.ubi_to_u, cur)
                        U = np.asarray(U, dtype=float)
                        if rep_msg:
                            out.append(rep_msg + " (%s)" % tag)
                        if not L.close(U, Uex, scale=1.0):
                            out.append("ubi_to_u(u_to_ubi(U)) differs from U by %.3g (%s)" % (float(np.abs(U - Uex).max()), tag))
                        cur, rep = U, "U"
                    elif step == "ubi_to_cell":
                        c = list(CALL(mod.ubi_to_cell, cur))
                        if not L.cell_close(c, cell0):
                            out.append("ubi_to_cell gives %s, the cell was %s (%s)" % ([float(x) for x in c], cell0, tag))
                        rep = "cell"
                    elif step == "ubi_to_u_b":
                        (U, B), rep_msg = L.twice(mod.ubi_to_u_b, cur)
                        if rep_msg:
                            out.append(rep_msg + " (%s)" % tag)
                        out += checkUB(U, B, "ubi_to_u_b")
                        rep = "UB"
                    elif step == "ub_to_u_b":
                        B0 = np.asarray(mod.form_b_mat(cell0), dtype=float)
                        U, B = CALL(mod.ub_to_u_b, np.asarray(cur).dot(B0))
                        out += checkUB(U, B, "ub_to_u_b(U.B)")
                        if not L.close(np.asarray(U).dot(B), Uex.dot(B0)):
                            out.append("ub_to_u_b: U.B != UB (%s)" % tag)
                        rep = "UB"
                    elif step in ("ubi_to_rod", "u_to_rod"):
                        r = np.asarray(CALL(getattr(mod, step), cur), dtype=float)
                        if not L.close(r, np.array(rod), scale=max(1.0, max(abs(x) for x in rod))):
                            out.append("%s gives %s, the Rodrigues vector is %s (%s)" % (step, r.tolist(), rod, tag))
                        cur, rep = np.array(rod), "rod"
                    elif step == "rod_to_u":
                        U = np.asarray(CALL(mod.rod_to_u, cur), dtype=float)
                        if not L.close(U, Uex, scale=1.0):
                            out.append("rod_to_u differs from the exact rotation by %.3g (%s)" % (float(np.abs(U - Uex).max()), tag))
                        cur, rep = U, "U"
                    else:
                        out.append("unknown step " + step)
            except Exception as ex:
                out.append("exception %r at %s of path %s (%s)" % (ex, step, rec["path"], tag))
    return n, out


def qr_worker(a):
    M, MtM, det = a
    import importlib
    import numpy as np
    out = []
    Mf = np.array(M, dtype=float)
    for modname in ("tools", "laue"):
        mod = importlib.import_module("xfab." + modname)
        tag = "xfab.%s M=%s" % (modname, M)
        try:
            U, B = mod.ub_to_u_b(Mf.copy())
            # the same split with the input checks switched off (restored at once): same U, same B
            import xfab
            was_ = xfab.CHECKS.activated
            try:
                xfab.CHECKS.activated = False
                U_off, B_off = mod.ub_to_u_b(Mf.copy())
            finally:
                xfab.CHECKS.activated = was_
            if not (np.array_equal(np.asarray(U_off), np.asarray(U)) and np.array_equal(np.asarray(B_off), np.asarray(B))):
                out.append("ub_to_u_b returns a different split with the input checks switched off (%s)" % tag)
        except Exception as ex:
            out.append("ub_to_u_b raised %r on a matrix with det %d > 0 (%s)" % (ex, det, tag))
            continue
        U, B = np.asarray(U, dtype=float), np.asarray(B, dtype=float)
        if not L.close(U.T.dot(U), np.eye(3), scale=1.0):
            out.append("ub_to_u_b: U'U != I (%s)" % tag)
        if not abs(np.linalg.det(U) - 1.0) <= 1e-9:
            out.append("ub_to_u_b: det U = %.6g, not +1 (%s)" % (np.linalg.det(U), tag))
        if not L.upper_pos(B):
            out.append("ub_to_u_b: B not upper triangular with positive diagonal (%s)" % tag)
        if not L.close(U.dot(B), Mf):
            out.append("ub_to_u_b: U.B != UB (%s)" % tag)
        if not L.close(B.T.dot(B), np.array(MtM, dtype=float)):
            out.append("ub_to_u_b: B'B != UB'UB (%s)" % tag)
    return 2, out


def draw_ill(rng):
    """M = P diag(d) Q, P, Q unimodular, condition number below 1e6 by the exact bound |M|_F^3 / det M, and large"""
    import numpy as np
    while True:
        def uni():
            M = np.eye(3, dtype=object)
            for _ in range(rng.randint(2, 4)):
                i, j = rng.sample([0, 1, 2], 2)
                E = np.eye(3, dtype=object)
                E[i, j] = rng.choice([-2, -1, 1, 2])
                M = M.dot(E)
            return M
        P, Q = uni(), uni()
        d = [rng.choice([1, 2, 3, 7]), rng.choice([1, 5, 40, 300]), rng.choice([300, 2000, 9000, 30000])]
        rng.shuffle(d)
        M = P.dot(np.diag(np.array(d, dtype=object))).dot(Q)
        det = d[0] * d[1] * d[2]
        fro2 = sum(int(x) * int(x) for x in M.ravel())
        if fro2 ** 3 < (10 ** 12) * det * det and fro2 ** 3 > (10 ** 6) * det * det:      # 1e3 < bound < 1e6
            return [[[int(x) for x in row] for row in P], [int(x) for x in d], [[int(x) for x in row] for row in Q]]


def ill_worker(a):
    import numpy as np
    P, d, Q = [np.array(x, dtype=object) for x in a]
    M = P.dot(np.diag(d)).dot(Q)
    MtM = M.T.dot(M)
    return qr_worker(([[int(x) for x in row] for row in M], [[int(x) for x in row] for row in MtM], int(d[0] * d[1] * d[2])))


def run(tier, seed):
    warnings.simplefilter("ignore")
    v = common.Verdict("C02", tier, seed)
    wd = common.workdir("C02")
    rng = random.Random(seed)
    nm, nr = (20, 200) if tier == "quick" else (80, 1500)
    metrics = [draw_metric(rng) for _ in range(nm)]
    # cells of special form - exactly orthogonal (cubic, tetragonal, orthorhombic), two right angles (each unique axis), hexagonal - with
    # GENERAL rotations: a fast path for "all angles 90" or for a diagonal B is only right if it is right for every U
    special = [[4, 4, 4, 0, 0, 0], [4, 4, 9, 0, 0, 0], [4, 9, 25, 0, 0, 0], [16, 9, 4, 0, 0, 0], [4, 9, 16, -2, 0, 0], [4, 9, 16, 0, 3, 0],
               [4, 9, 16, 0, 0, -1], [4, 4, 9, 0, 0, -2], [6, 6, 6, 1, 1, 1], [1, 25, 4, 0, 0, 0],
               # strongly oblique, Gram determinant 0.028 .. 0.04: at the edge of the quantifier (>= 0.02), where an over-cautious "nearly
               # coplanar" test would refuse a valid cell
               [50, 50, 7, 0, 0, -49], [50, 50, 7, 0, 0, 49], [10, 10, 10, 9, 9, 9], [7, 50, 50, 49, 0, 0],
               # needle- and plate-shaped cells: one axis 2000 times the others (a pseudo-inverse with a relative cut-off drops the short ones)
               [1, 1, 4000000, 0, 0, 0], [4000000, 1, 1, 0, 0, 0]]
    rots = list(AXIS) + [draw_rotation(rng, 3 if tier == "quick" else 6) for _ in range(nr)]
    pairs = []
    for i, (p, q) in enumerate(rots):
        for m in rng.sample(metrics, 3 if tier == "quick" else 6):
            pairs.append([m, p, q])
        if i % (4 if tier == "quick" else 1) == 0:
            for m in rng.sample(special, 2):
                pairs.append([m, p, q])
    mats = set()
    while len(mats) < (300 if tier == "quick" else 20000):
        M = tuple(tuple(rng.randint(-4, 4) for _ in range(3)) for _ in range(3))
        d = (M[0][0] * (M[1][1] * M[2][2] - M[1][2] * M[2][1]) - M[0][1] * (M[1][0] * M[2][2] - M[1][2] * M[2][0])
             + M[0][2] * (M[1][0] * M[2][1] - M[1][1] * M[2][0]))
        if d > 0:
            mats.add(M)
    common.write_data_module(wd, "OrientCases", {
        "Pairs": common.TlaSet(pairs), "Mats": common.TlaSet([[list(r) for r in M] for M in sorted(mats)]),
        "Hkls": common.TlaSet([[1, 0, 0]]),
        "IllMats": common.TlaSet([draw_ill(rng) for _ in range(150 if tier == "quick" else 5000)])})
    r = common.run_tlc("Orient", "MC_Orient.cfg", wd, timeout=3000, heap="12g")
    if r.violated:
        raise common.MachineryError("Orient.tla: model-level identity violated: %s" % r.violated)
    recs = [x for x in r.records if "path" in x]
    mrec = [x for x in r.records if "mats" in x]
    if not mrec:
        raise common.MachineryError("matrices for the QR split were not emitted")
    # rotations within 1e-5 .. 3e-8 rad of the identity and of the axis-aligned rotations (a well aligned crystal): Cayley numerators
    # with q = 1e5 .. 3e7 in unbounded Python integers (identities proved for all integers by Apalache), same record format as TLC's.
    # Entries of 1e-7 are small, not zero: snapping them loses the orientation
    paths = sorted(set(tuple(x["path"]) for x in recs))
    def cay_int(pv, qv):
        pp = sum(t * t for t in pv)
        Kx = [[0, -pv[2], pv[1]], [pv[2], 0, -pv[0]], [-pv[1], pv[0], 0]]
        return [[(qv * qv - pp) * (1 if i == j else 0) + 2 * pv[i] * pv[j] + 2 * qv * Kx[i][j] for j in range(3)] for i in range(3)], qv * qv + pp
    def matmul_int(A_, B_):
        return [[sum(A_[i][k] * B_[k][j] for k in range(3)) for j in range(3)] for i in range(3)]
    near = []
    for qd in (100000, 1000000, 10000000, 30000000):
        for _ in range(3 if tier == "quick" else 25):
            pd = [rng.randint(-3, 3) for _ in range(3)]
            if not any(pd):
                pd = [1, -2, 1]
            Nd, Dd = cay_int(pd, qd)
            m = rng.choice(metrics + special)
            base = L.exact_metric_record(m, [[1, 0, 0]], rng.choice(paths))
            rec = dict(base, p=pd, q=qd, N=Nd, D=Dd)
            near.append(rec)
            pa, qa = rng.choice(AXIS[1:])
            Na, Da = cay_int(pa, qa)
            norod = [pt for pt in paths if not any("rod" in st for st in pt)]
            near.append(dict(base, p=[0, 0, 0], q=0, N=matmul_int(Nd, Na), D=Dd * Da, path=list(rng.choice(norod))))
    # cells with angles a few 1e-4 degrees from 90 (metric entries of 1e5: beyond TLC's 32-bit products, same unbounded-integer route),
    # with general rotations: an angle "snapped" to 90 moves the lattice by 1e-5
    for m_ in ([100000, 100000, 7, 0, 0, 1], [100000, 81, 100000, 0, 2, 0], [90000, 100000, 110000, 1, -1, 1], [100000, 100000, 100000, -1, 0, 0]):
        for (pv, qv) in (([1, 2, -1], 3), ([2, -3, 1], 1), ([0, 0, 0], 1), ([1, 0, 0], 1)):
            Nd, Dd = cay_int(pv, qv)
            base = L.exact_metric_record(m_, [[1, 0, 0]], rng.choice(paths))
            near.append(dict(base, p=list(pv), q=qv, N=Nd, D=Dd))
    recs = recs + near
    u2 = rng.uniform(0.3, 30.0)
    # consecutive nearly equal cells (a strained grain of the same phase): stale per-cell caches would show
    us = [1.0, u2, u2 * (1 + 3e-6), u2 * (1 - 2e-6)]
    us_extreme = [rng.uniform(0.005, 0.02), rng.uniform(5e3, 3e4)]       # edges of ~0.2 A and ~400 A
    res = common.pmap(worker, [(x, us if k % 5 else us + us_extreme) for k, x in enumerate(recs)])
    ncalls = 0
    for x, (n, out) in zip(recs, res):
        ncalls += n
        v.case((tuple(x["G"]), tuple(x["p"]), x["q"], tuple(x["path"])),
               sample={"metric": x["G"], "rodrigues": [x["p"], x["q"]], "path": x["path"]} if len(v.samples) < 3 else None)
        for o in out[:2]:
            v.violation(o, {"metric": x["G"], "p": x["p"], "q": x["q"], "path": x["path"], "scales": us})
    res = common.pmap(qr_worker, mrec[0]["mats"])
    for (M, MtM, det), (n, out) in zip(mrec[0]["mats"], res):
        ncalls += n
        v.case(("qr", repr(M)), sample={"UB": M, "det": det} if len(v.samples) < 4 else None)
        for o in out[:2]:
            v.violation(o, {"UB": M, "det": det})
    ill = mrec[0].get("ill", [])
    for M3, (n, out) in zip(ill, common.pmap(ill_worker, ill)):
        ncalls += n
        v.case(("ill", repr(M3)), sample={"UB_factors_P_d_Q": M3} if len(v.samples) < 5 else None)
        for o in out[:2]:
            v.violation(o + " [ill-conditioned UB = P.diag(%s).Q, condition number between 1e3 and 1e6]" % M3[1], {"P": M3[0], "d": M3[1], "Q": M3[2]})
    if v.violations:
        seen = {}
        for q in v.violations:
            seen.setdefault(q["what"].split("(")[0][:60] + ("tools" if "xfab.tools" in q["what"] else "laue"), q)
        v.notes.append("%d violating observations collapsed to %d" % (len(v.violations), len(seen)))
        v.violations = list(seen.values())
    cov = {"states": r.distinct, "transitions": r.generated, "traces_validated_against_impl": len(recs) + len(mrec[0]["mats"]),
           "rotations": len(rots), "metrics": len(metrics), "general_matrices": len(mats), "function_calls": ncalls,
           "exhaustive": False,
           "rule": "behaviour = (metric, Cayley rotation, path of depth <= 4 through the converters); 24 axis-aligned + seeded rotations x "
                   "seeded oblique metrics; every path in tools and laue for 2 scale factors; plus general integer matrices with det > 0 for ub_to_u_b"}
    if tier == "thorough":
        common.apalache_obligations(wd, ["CayleyOrthogonal", "AdjugateInverse"], cov)
    return v.finish("model_checking", cov, ASSUME)


def replay(path, seed):
    return run("quick", seed)
