"""C19 - parameter sets survive save/load and stay consistent under any call sequence.

R: every behaviour of Parameters.tla with a fixed number of API events over a small alphabet (exhaustive) and
   long simulated behaviours over a rich alphabet are replayed into a real xfab.parameters.parameters object;
   the projected state (parameters, varylist, variable_list, stepsizes, the other object, return value) is
   compared after every call.
T: hypothesis histories with rich values (random doubles, ints up to 2^62, numeric-looking and padded text)
   recorded from the real object and validated by TLC against Trace_Parameters.tla.
"""
import os
import random
import struct
import warnings

import common

ASSUME = [
    "Python's float repr round-trips bit-exactly and int()/float() accept surrounding blanks (language facts)",
    "text values are drawn from templates whose kind is known by construction (str(int), repr(float), blank-free "
    "identifiers, padded variants); names are blank-free",
    "float comparison is bit-exact (struct pack), int/float/str types are compared strictly",
]

INTS = {0: 0, 1: 7, 2: 12, 3: -3, 4: 2 ** 62 + 1}      # id 4 has more than 53 significant bits: not a float
FLOATS = {0: 1.5, 1: 1e-5, 2: 0.1 + 0.2, 3: -2.5e300}
PLAIN = {0: "\u00b5m", 1: "#ff8800", 2: "x-y.z", 99: "None"}      # 1: a colour code - text that starts with the usual comment character


class Tok(object):
    """token <-> concrete value, with interning tables (fixed for R, per trace for T)"""

    def __init__(self, ints=None, floats=None, plain=None):
        self.ints = dict(ints or {})
        self.floats = dict(floats or {})
        self.plain = dict(plain or {})

    def value(self, t):
        k, x = t["k"], t["x"]
        if k == "int":
            return self.ints[x]
        if k == "float":
            # every other float token is handed over as numpy.float64 - what a refinement writes back (a subclass of float: the same
            # value, the same repr round trip; str() must be what reaches the file, not repr())
            if x % 2 == 1:
                import numpy as np
                return np.float64(self.floats[x])
            return self.floats[x]
        if k == "str_plain":
            return self.plain[x]
        if k == "str_empty":
            return ""
        if k == "str_int":
            return str(self.ints[x])
        if k == "str_float":
            return repr(self.floats[x])
        if k == "str_padint":
            return "  " + str(self.ints[x]) + " "
        if k == "str_padded":
            return " " + self.plain[x] + "  "
        if k == "str_inner":
            return "a b"
        if k == "none":
            return None
        raise common.MachineryError("unknown token %r" % (t,))

    @staticmethod
    def fbits(f):
        return struct.pack("<d", f)

    def token(self, v):
        """concrete value -> token (by type, bit-exact); None if the value is foreign to the tables"""
        if v is None:
            return {"k": "none", "x": 0}
        if isinstance(v, bool):
            return None
        if isinstance(v, int):
            for x, i in self.ints.items():
                if i == v:
                    return {"k": "int", "x": x}
            return None
        if isinstance(v, float):
            for x, f in self.floats.items():
                if self.fbits(f) == self.fbits(v):
                    return {"k": "float", "x": x}
            return None
        if isinstance(v, str):
            if v == "":
                return {"k": "str_empty", "x": 0}
            if v == "a b":
                return {"k": "str_inner", "x": 0}
            for x, s in self.plain.items():
                if s == v:
                    return {"k": "str_plain", "x": x}
                if " " + s + "  " == v:
                    return {"k": "str_padded", "x": x}
            for x, i in self.ints.items():
                if str(i) == v:
                    return {"k": "str_int", "x": x}
                if "  " + str(i) + " " == v:
                    return {"k": "str_padint", "x": x}
            for x, f in self.floats.items():
                if repr(f) == v:
                    return {"k": "str_float", "x": x}
            return None
        return None


class Other(object):
    pass


class Real(object):
    """the real object under test plus its companion, with projection"""

    def __init__(self, tok, other0, wd):
        from xfab import parameters
        self.mod = parameters
        self.tok = tok
        self.p = parameters.parameters()
        # the companion object: every other attribute it starts with is a CLASS-level default (what a detector or a peak-search object
        # typically has), the rest are instance attributes; both are attributes as far as hasattr / getattr / setattr go
        items = sorted(other0.items()) if isinstance(other0, dict) else []
        cls = type("Other", (object,), {n: tok.value(t) for k_, (n, t) in enumerate(items) if k_ % 2 == 0 and n.isidentifier()})
        self.o = cls()
        self.onames = set(n for n, t in items)
        for k_, (n, t) in enumerate(items):
            if not (k_ % 2 == 0 and n.isidentifier()):
                setattr(self.o, n, tok.value(t))
        self.path = os.path.join(wd, "pars-%d.txt" % os.getpid())

    def project(self, ret):
        T = self.tok.token

        def tk(v):
            t = T(v)
            return t if t is not None else {"k": "FOREIGN", "x": repr(v)}
        return {"pars": {n: tk(v) for n, v in self.p.get_parameters().items()},
                "varylist": list(self.p.varylist), "variable_list": list(self.p.get_variable_list()),
                "stepsizes": {n: tk(v) for n, v in self.p.stepsizes.items()},
                "other": {n: tk(getattr(self.o, n)) for n in sorted(self.onames | set(vars(self.o)))}, "ret": ret}

    def step(self, e):
        V = self.tok.value
        ev = e["ev"]
        ret = {"tag": "ok", "val": 0}
        try:
            if ev == "addpar":
                self.p.addpar(self.mod.par(e["n"], V(e["v"]), vary=e["vary"], can_vary=e["cv"], stepsize=V(e["st"])))
            elif ev == "addpar_sl":
                # "to send to Java": the par object travels as a string list and is rebuilt on the other side
                src = self.mod.par(e["n"], V(e["v"]), vary=e["vary"], can_vary=e["cv"], stepsize=V(e["st"]))
                dst = self.mod.par("placeholder", None)
                dst.fromstringlist(src.tostringlist())
                self.p.addpar(dst)
            elif ev == "construct":
                d = e["d"] if isinstance(e["d"], dict) else {}
                self.p = self.mod.parameters(**{n: V(t) for n, t in d.items()})
            elif ev == "get_variable_stepsizes":
                r = self.p.get_variable_stepsizes()
                ret = {"tag": "values", "val": [self.tok.token(x) or {"k": "FOREIGN", "x": repr(x)} for x in r]}
            elif ev == "get_variable_list":
                ret = {"tag": "names", "val": list(self.p.get_variable_list())}
            elif ev == "get_parameters":
                r = self.p.get_parameters()
                ret = {"tag": "dict", "val": {n: (self.tok.token(x) or {"k": "FOREIGN", "x": repr(x)}) for n, x in r.items()}}
            elif ev == "read_par_file":
                self.p = self.mod.read_par_file(self.path)
            elif ev == "fork":
                q = self.mod.parameters()
                q.set_parameters(self.p.get_parameters())
                q.set(e["n"], V(e["v"]))
                q.addpar(self.mod.par("forked_only", 1, vary=True, can_vary=True, stepsize=0.5))
                r = q.get(e["n"])
                t = self.tok.token(r)
                ret = {"tag": "value", "val": t if t is not None else {"k": "FOREIGN", "x": repr(r)}}
            elif ev == "set":
                self.p.set(e["n"], V(e["v"]))
            elif ev == "set_parameters":
                d = e["d"] if isinstance(e["d"], dict) else {}
                self.p.set_parameters({n: V(t) for n, t in d.items()})
            elif ev == "get":
                r = self.p.get(e["n"])
                t = self.tok.token(r)
                ret = {"tag": "value", "val": t if t is not None else {"k": "FOREIGN", "x": repr(r)}}
            elif ev == "set_varylist":
                self.p.set_varylist(list(e["vl"]))
            elif ev == "set_variable_values":
                self.p.set_variable_values([V(t) for t in e["vs"]])
            elif ev == "get_variable_values":
                r = self.p.get_variable_values()
                ret = {"tag": "values", "val": [self.tok.token(x) or {"k": "FOREIGN", "x": repr(x)} for x in r]}
            elif ev == "update_other":
                self.p.update_other(self.o)
            elif ev == "update_yourself":
                self.p.update_yourself(self.o)
            elif ev == "other_set":
                setattr(self.o, e["n"], V(e["v"]))
                self.onames.add(e["n"])
            elif ev == "save":
                self.p.saveparameters(self.path)
            elif ev == "load":
                self.p.loadparameters(self.path)
            elif ev == "load_fresh":
                self.p = self.mod.parameters()
                self.p.loadparameters(self.path)
            else:
                raise common.MachineryError("unknown event %r" % (e,))
        except KeyError:
            ret = {"tag": "KeyError", "val": 0}
        except AssertionError:
            ret = {"tag": "AssertionError", "val": 0}
        return self.project(ret)

    def close(self):
        try:
            os.remove(self.path)
        except OSError:
            pass


def norm(x):
    """JSON from TLC renders empty functions/sequences as [] - normalise for comparison"""
    if isinstance(x, dict):
        return {k: norm(v) for k, v in x.items()}
    if isinstance(x, list):
        return [norm(v) for v in x]
    return x


def same_post(model, real):
    m, r = norm(model), norm(real)
    for k in ("pars", "stepsizes", "other"):
        a = m[k] if isinstance(m[k], dict) else {}
        b = r[k] if isinstance(r[k], dict) else {}
        if a != b:
            return k
    for k in ("varylist", "variable_list"):
        if list(m[k]) != list(r[k]):
            return k
    if m["ret"]["tag"] != r["ret"]["tag"]:
        return "ret"
    if m["ret"]["tag"] in ("value", "values", "names") and m["ret"]["val"] != r["ret"]["val"]:
        return "ret"
    if m["ret"]["tag"] == "dict" and (m["ret"]["val"] if isinstance(m["ret"]["val"], dict) else {}) != r["ret"]["val"]:
        return "ret"
    return None


def replay_behaviour(rec, wd, v, origin):
    tok = Tok(INTS, FLOATS, PLAIN)
    R = Real(tok, rec["other0"], wd)
    try:
        for k, h in enumerate(rec["hist"]):
            got = R.step(h["e"])
            bad = same_post(h["post"], got)
            if bad:
                e = dict(h["e"])
                v.violation("after call %d (%s) the object's %s is %s; a plain dictionary model gives %s" %
                            (k + 1, describe(e, tok), bad, brief(got, bad), brief(norm(h["post"]), bad)),
                            {"behaviour": [x["e"] for x in rec["hist"]], "other0": rec["other0"], "step": k, "origin": origin})
                return False
        return True
    finally:
        R.close()


def describe(e, tok):
    e = dict(e)
    ev = e.pop("ev")
    for k in ("v", "st"):
        if k in e and isinstance(e[k], dict):
            e[k] = tok.value(e[k])
    if "vs" in e:
        e["vs"] = [tok.value(t) for t in e["vs"]]
    if "d" in e and isinstance(e["d"], dict):
        e["d"] = {n: tok.value(t) for n, t in e["d"].items()}
    return "%s %s" % (ev, e)


def brief(post, k):
    return str(post[k])[:300]


# ---------------------------------------------------------------------------
# T: traces recorded from the implementation
NAMEPOOL = ["a", "b-c", "b_c", "z9", "k-1", "k_1", "Q", "2th", "y.c", "fit_tolerance_of_the_second_detector_tilt_x", "o11", "o12", "wedge", "t_x", "chi"]


def record_traces(n, maxlen, seed, wd):
    from hypothesis import given, settings, strategies as st, HealthCheck, seed as hseed
    names = st.sampled_from(NAMEPOOL)
    ints = st.one_of(st.integers(-5, 5), st.integers(-2 ** 62, 2 ** 62))
    floats = st.floats(allow_nan=False, allow_infinity=False, width=64)
    plains = st.sampled_from(["ab", "xy", "x-y.z", "tilt_x", "1e", "0x1f", "--", "e5", "1.2.3", "+-1", "#ff8800", "#", "#12", ";x", "%a", "!b", "//c", "x" * 41, "/data/visitor/ma1234/id11/sample_7/edf/", "\u00b5m", "\u00c5ngstr\u00f6m"])
    # value spec: (kind, payload)
    vals = st.one_of(ints.map(lambda i: ("int", i)), floats.map(lambda f: ("float", f)),
                     plains.map(lambda s: ("str_plain", s)), st.just(("str_empty", None)),
                     ints.map(lambda i: ("str_int", i)), floats.map(lambda f: ("str_float", f)),
                     ints.map(lambda i: ("str_padint", i)), plains.map(lambda s: ("str_padded", s)),
                     st.just(("str_inner", None)), st.just(("none", None)))
    ev = st.one_of(
        st.tuples(st.just("addpar"), names, vals, st.booleans(), st.booleans(), vals),
        st.tuples(st.just("set"), names, vals),
        st.tuples(st.just("set_parameters"), st.dictionaries(names, vals, max_size=3)),
        st.tuples(st.just("get"), names),
        st.tuples(st.just("set_varylist"), st.lists(names, max_size=3)),
        st.tuples(st.just("set_variable_values"), st.lists(vals, max_size=3)),
        st.tuples(st.just("get_variable_values")), st.tuples(st.just("update_other")),
        st.tuples(st.just("update_yourself")), st.tuples(st.just("other_set"), names, vals),
        st.tuples(st.just("save")), st.tuples(st.just("load")), st.tuples(st.just("load_fresh")),
        st.tuples(st.just("addpar_sl"), names, vals, st.booleans(), st.booleans(), vals),
        st.tuples(st.just("construct"), st.dictionaries(names, vals, max_size=3)),
        st.tuples(st.just("get_variable_stepsizes")), st.tuples(st.just("get_variable_list")),
        st.tuples(st.just("get_parameters")), st.tuples(st.just("read_par_file")), st.tuples(st.just("fork"), names, vals))
    out = []

    @hseed(seed)
    @settings(max_examples=n, deadline=None, database=None, suppress_health_check=list(HealthCheck), phases=["generate"])
    @given(st.lists(ev, min_size=1, max_size=maxlen - 6), st.dictionaries(names, vals, max_size=2),
           st.sampled_from([(), ("save", "load_fresh"), ("save", "load"), ("save", "set", "load")]),
           st.lists(ev, max_size=4))
    def drive(seq, other0, mid, rest):
        seq = list(seq) + [(m,) if m != "set" else ("set", "a", ("str_int", 5)) for m in mid] + list(rest)
        tok = Tok({}, {}, {99: "None"})

        def intern(spec):
            k, payload = spec
            if k in ("int", "str_int", "str_padint"):
                tab = tok.ints
            elif k in ("float", "str_float"):
                tab = tok.floats
            elif k in ("str_plain", "str_padded"):
                tab = tok.plain
            else:
                return {"k": k, "x": 0}
            for x, val in tab.items():
                if (Tok.fbits(val) == Tok.fbits(payload)) if tab is tok.floats else (val == payload):
                    return {"k": k, "x": x}
            x = len(tab)
            while x in tab:
                x += 1
            tab[x] = payload
            return {"k": k, "x": x}
        o0 = {nm: intern(sp) for nm, sp in other0.items()}
        R = Real(tok, o0, wd)
        saved = False
        events = []
        try:
            for s in seq:
                kind = s[0]
                if kind in ("load", "load_fresh", "read_par_file") and not saved:
                    continue
                if kind == "construct" and any(sp[0] in ("str_int", "str_padint", "str_float", "str_padded") for sp in s[1].values()):
                    continue          # the constructor's treatment of numeric-looking text is left open (see Parameters.tla)
                if kind in ("addpar", "addpar_sl"):
                    e = {"ev": kind, "n": s[1], "v": intern(s[2]), "vary": s[3], "cv": s[4], "st": intern(s[5])}
                elif kind in ("set", "other_set", "fork"):
                    e = {"ev": kind, "n": s[1], "v": intern(s[2])}
                elif kind in ("set_parameters", "construct"):
                    e = {"ev": kind, "d": {nm: intern(sp) for nm, sp in s[1].items()}}
                elif kind == "get":
                    e = {"ev": kind, "n": s[1]}
                elif kind == "set_varylist":
                    e = {"ev": kind, "vl": list(s[1])}
                elif kind == "set_variable_values":
                    e = {"ev": kind, "vs": [intern(sp) for sp in s[1]]}
                else:
                    e = {"ev": kind}
                if kind == "save":
                    saved = True
                post = R.step(e)
                events.append({"e": e, "post": post})
        finally:
            R.close()
        if events:
            out.append({"other0": o0, "events": events})

    drive()
    return out


def to_tla_trace(tr):
    M = common.TlaMap

    def ev(e):
        e = dict(e)
        if "d" in e:
            e["d"] = M(e["d"])
        return e

    def post(p):
        return {"pars": M(p["pars"]), "varylist": p["varylist"], "variable_list": p["variable_list"],
                "stepsizes": M(p["stepsizes"]), "other": M(p["other"]),
                "ret": p["ret"] if p["ret"]["tag"] != "dict" else {"tag": "dict", "val": M(p["ret"]["val"])}}
    return {"other0": M(tr["other0"]), "events": [{"e": ev(x["e"]), "post": post(x["post"])} for x in tr["events"]]}


def has_foreign(tr):
    return "FOREIGN" in repr(tr)


def run(tier, seed):
    warnings.simplefilter("ignore")
    import logging
    logging.getLogger("xfab").setLevel(logging.CRITICAL)
    logging.getLogger("xfab.parameters").setLevel(logging.CRITICAL)
    v = common.Verdict("C19", tier, seed)
    wd = common.workdir("C19")
    states = trans = 0
    r = common.run_tlc("MC_Parameters", "MC_Parameters.cfg", wd, timeout=3000, heap="16g")
    if r.violated:
        raise common.MachineryError("Parameters.tla violates its own invariants: %s" % r.violated)
    states += r.distinct
    trans += r.generated
    nb = 0
    recs = r.records
    if tier == "thorough":
        # deeper (3 free events + save + load) over a smaller alphabet
        r3 = common.run_tlc("MC_Parameters", "MC_Parameters3.cfg", wd, timeout=3000, heap="16g")
        if r3.violated:
            raise common.MachineryError("Parameters.tla violates its own invariants: %s" % r3.violated)
        states += r3.distinct
        trans += r3.generated
        recs = recs + r3.records
    rng = random.Random(seed)
    if len(recs) > 400000:
        recs = rng.sample(recs, 400000)
    for x in recs:
        nb += 1
        replay_behaviour(x, wd, v, "exhaustive")
        v.case(("B", nb), sample=[describe(h["e"], Tok(INTS, FLOATS, PLAIN)) for h in x["hist"]] if len(v.samples) < 2 else None)
        if len(v.violations) > 100:
            break
    nsim = 25 if tier == "quick" else 400
    rs = common.run_tlc("MC_Parameters", "MC_ParametersSim.cfg", wd, workers=8, timeout=2400,
                        simulate="num=%d" % nsim, extra=["-depth", "52", "-seed", str(seed + 11)])
    for x in rs.records:
        nb += 1
        replay_behaviour(x, wd, v, "simulation")
        v.case(("S", nb), sample=[describe(h["e"], Tok(INTS, FLOATS, PLAIN)) for h in x["hist"][:8]] if len(v.samples) < 3 else None)
        if len(v.violations) > 100:
            break
    # T
    traces = record_traces(150 if tier == "quick" else 1500, 30, seed, wd)
    foreign = [t for t in traces if has_foreign(t)]
    for t in foreign[:5]:
        k = [i for i, e in enumerate(t["events"]) if "FOREIGN" in repr(e["post"])][0]
        v.violation("the object holds a value that was never written (event %d: %s -> %s)" %
                    (k + 1, t["events"][k]["e"], str(t["events"][k]["post"])[:300]), {"trace": t})
    good = [t for t in traces if not has_foreign(t)]
    # binding demonstration, always on: corrupted traces that MUST be rejected
    t7 = {"k": "int", "x": 0}
    e1 = {"ev": "addpar", "n": "a", "v": t7, "vary": True, "cv": True, "st": t7}
    p1 = {"pars": {"a": t7}, "varylist": ["a"], "variable_list": ["a"], "stepsizes": {"a": t7}, "other": {},
          "ret": {"tag": "ok", "val": 0}}
    e2 = {"ev": "get_variable_values"}
    p2 = dict(p1, ret={"tag": "values", "val": [t7]})
    bad_field = dict(p1, varylist=["a", "a"])
    canary = [{"other0": {}, "events": [{"e": e1, "post": bad_field}]},          # one corrupted field
              {"other0": {}, "events": [{"e": e2, "post": p2}]}]                 # the addpar event dropped
    sane = [{"other0": {}, "events": [{"e": e1, "post": p1}, {"e": e2, "post": p2}]}]   # and the intact one is accepted
    canary = sane + canary
    common.write_data_module(wd, "ParamTraces", {
        "Traces": [to_tla_trace(t) for t in good + canary],
        "TraceNames": sorted(NAMEPOOL), "TraceToks": [{"k": "int", "x": 0}], "TraceTail": []})
    rt = common.run_tlc("Trace_Parameters", "MC_Trace_Parameters.cfg", wd, timeout=2400, depth_first=True)
    states += rt.distinct
    trans += rt.generated
    reach = {}
    for x in rt.records:
        reach[x["tid"]] = max(reach.get(x["tid"], 0), x["l"])
    if reach.get(len(good) + 1, 0) != 3:
        raise common.MachineryError("trace specification rejected the intact canary trace")
    for j in (len(good) + 2, len(good) + 3):
        if reach.get(j, 0) != 1:
            raise common.MachineryError("trace specification accepted a corrupted trace (canary %d): binding is vacuous" % j)
    acc = 0
    for i, t in enumerate(good, start=1):
        v.case(("T", i), sample=[x["e"] for x in t["events"][:4]] if len(v.samples) < 5 else None)
        if reach.get(i, 0) == len(t["events"]) + 1:
            acc += 1
        else:
            k = reach.get(i, 1)
            e = t["events"][k - 1]
            v.violation("recorded trace rejected by Trace_Parameters at event %d: %s left the object in %s - not what the "
                        "dictionary model allows after the accepted prefix of %d events" % (k, e["e"], str(e["post"])[:400], k - 1),
                        {"trace": t, "rejected_at": k})
    if rt.violated:
        v.violation("invariant violated while validating implementation traces: %s" % rt.violated, {})
    if v.violations:
        seen = {}
        for q in v.violations:
            seen.setdefault(q["what"][:60], q)
        v.notes.append("%d violating behaviours collapsed to %d" % (len(v.violations), len(seen)))
        v.violations = list(seen.values())
    cov = {"states": states, "transitions": trans, "traces_validated_against_impl": nb + len(good),
           "behaviours_replayed": nb, "impl_traces_validated": len(good), "impl_traces_accepted": acc, "exhaustive": True,
           "rule": "R: all behaviours with %d free events followed by save + load into a fresh object, over 2 names x 3 value tokens + simulated behaviours of 25 events over 4 names x "
                   "14 tokens; T: hypothesis histories (<= 30 events, random doubles, ints to 2^62, text templates) validated by "
                   "Trace_Parameters.tla" % (2 if tier == "quick" else 3)}
    return v.finish("model_checking", cov, ASSUME)


def replay(path, seed):
    import json
    common.use_repo()
    c = json.load(open(path))["case"]
    print(json.dumps(c)[:2000])
    return run("quick", seed)
