"""C20 - input checks reject exactly the invalid inputs, and only while switched on.

R: TLC enumerates every behaviour of Checks.tla of a fixed number of API events (assignments to the switch
   interleaved with guarded calls on input classes) and long simulated behaviours; each is replayed into the
   real package, outcome class and switch state compared after every event.
T: hypothesis drives long random histories against the real package, records one event per call at return
   (error path too) and TLC validates the traces against Trace_Checks.tla.
"""
import math
import os
import random
import traceback
import warnings

import common

ASSUME = [
    "an exception counts as 'the check's own ValueError' iff it is a ValueError raised from a frame of xfab/checks.py",
    "input classes: valid64 = Cayley rotation in float64; valid32 = the same rounded to float32 (perturbation < 1e-7); "
    "nonorth = one or more entries off by 1e-3..1; detm1 = improper orthonormal; scaled = 1.01*U or 0.5*U; "
    "Euler below 0 / above 2pi by 1e-3..1; left-handed UBI = two rows exchanged; negdet UB = U.B with one column negated",
    "python is run without -O (__debug__ is True), as the test suite does",
]


def cayley(p, q):
    import numpy as np
    p = np.array(p, dtype=float)
    K = np.array([[0, -p[2], p[1]], [p[2], 0, -p[0]], [-p[1], p[0], 0]])
    D = q * q + p.dot(p)
    N = (q * q - p.dot(p)) * np.eye(3) + 2 * np.outer(p, p) + 2 * q * K
    return N / D


class World(object):
    """concrete inputs per class and execution of events against the real package"""

    def __init__(self, seed):
        import numpy as np
        import xfab
        from xfab import tools, laue, symmetry
        self.np, self.xfab = np, xfab
        self.mods = {"tools": tools, "laue": laue, "symmetry": symmetry}
        self.rng = random.Random(seed)
        self.cell = [3.0, 4.0, 5.0, 80.0, 95.0, 100.0]
        self.ref = {}

    def rot(self):
        r = self.rng
        p = [r.randint(-6, 6) for _ in range(3)]
        q = r.randint(1, 6)
        return cayley(p, q)

    def make(self, m, f, c):
        """concrete argument tuple for (module, function, class)"""
        np, r = self.np, self.rng
        U = self.rot()
        if c == "valid32":
            # float32 precision, as a float64 array or - what a detector pipeline hands over - as a float32 array
            U = U.astype(np.float32)
            if r.random() < 0.5:
                U = U.astype(np.float64)
        elif c == "valid64" and f in ("u_to_euler", "u_to_rod", "u_to_ubi") and r.random() < 0.3:
            U = U.tolist()                      # a nested list is a matrix too
        elif c == "nonorth":
            U = U.copy()
            for _ in range(r.choice([1, 1, 3])):
                U[r.randrange(3), r.randrange(3)] += r.choice([-1, 1]) * 10 ** r.uniform(-3, 0)
        elif c == "detm1":
            U = -U if r.random() < 0.5 else U.dot(np.diag([1, -1, 1]))
        elif c == "scaled":
            U = U * r.choice([1.01, 0.5, 0.99])
        if f in ("u_to_euler", "u_to_rod"):
            return (U,)
        if f == "u_to_ubi":
            return (U, self.cell)
        if f == "euler_to_u":
            two = 2 * math.pi
            a = [r.choice([0.0, two, r.uniform(0, two)]) for _ in range(3)]
            if c == "negative":
                a[r.randrange(3)] = -10 ** r.uniform(-3, 0)
            elif c == "above2pi":
                a[r.randrange(3)] = two + 10 ** r.uniform(-3, 0)
            return tuple(a)
        mod = self.mods[m] if m in ("tools", "laue") else self.mods["tools"]
        if f in ("ubi_to_u", "ubi_to_u_and_eps", "ubi_to_rod", "ubi_to_u_b"):
            was = self.xfab.CHECKS.activated
            self.xfab.CHECKS.activated = True
            try:
                U0 = self.rot()
                if c == "halfturn":
                    # rotation by exactly 180 degrees: Cayley with q = 0; also the axis-aligned ones (diag(1,-1,-1), ...)
                    p = r.choice([[1, 0, 0], [0, 1, 0], [0, 0, 1], [r.randint(-4, 4), r.randint(-4, 4), r.randint(1, 4)]])
                    U0 = cayley(p, 0)
                # handedness is a sign, not a size: cells a thousand times smaller or larger than a mineral's are right-handed UBIs
                # too (a triple product compared with a fixed positive number instead of with zero rejects the small ones)
                cell = r.choice([self.cell, self.cell, [0.05, 0.06, 0.07, 80.0, 95.0, 100.0], [300.0, 400.0, 500.0, 80.0, 95.0, 100.0]])
                ubi = mod.u_to_ubi(U0, cell)
            finally:
                self.xfab.CHECKS.activated = was
            if c == "lefthanded":
                i, j = r.sample([0, 1, 2], 2)
                ubi = ubi.copy()
                ubi[[i, j]] = ubi[[j, i]]
            return (ubi, cell) if f == "ubi_to_u_and_eps" else (ubi,)
        if f == "ub_to_u_b":
            B = mod.form_b_mat(self.cell)
            UB = self.rot().dot(B)
            if c == "negdet":
                UB = UB.copy()
                UB[:, r.randrange(3)] *= -1
            return (UB,)
        if f == "Umis":
            V = self.rot()
            cs = r.randint(1, 7)
            if c == "valid32":
                V = V.astype(np.float32).astype(np.float64)
                return (U, V, cs)
            if c == "valid64":
                return (U, V, cs)
            if c == "nonorth2":
                W = V.copy()
                W[r.randrange(3), r.randrange(3)] += r.choice([-1, 1]) * 10 ** r.uniform(-3, 0)
                return (self.rot(), W, cs)
            # nonorth / detm1 in the first argument; in part of the cases the second argument is invalid too, in the way that
            # compensates (both improper; s.U and V/s): the relative rotation U'.V is then a perfect rotation although neither
            # argument is - a guard that looks at the product instead of at each argument lets these through
            if c == "detm1" and r.random() < 0.5:
                V = -V if r.random() < 0.5 else V.dot(np.diag([1, -1, 1]))
            elif c == "nonorth" and r.random() < 0.4:
                s_ = r.choice([2.0, 0.5, 1.25])
                return (self.rot() * s_, V / s_, cs)
            return (U, V, cs)
        raise common.MachineryError("no concretisation for %s.%s %s" % (m, f, c))

    def assign_value(self, v):
        np = self.np
        return {"True": True, "False": False, "int0": 0, "int1": 1, "None": None, "str_yes": "yes",
                "np_true": np.bool_(True), "np_false": np.bool_(False),
                "other_truthy": [1], "other_falsy": 0.0}[v]

    @staticmethod
    def from_checks(exc):
        if not isinstance(exc, ValueError):
            return False
        for fr in traceback.extract_tb(exc.__traceback__):
            if fr.filename.replace("\\", "/").endswith("xfab/checks.py"):
                return True
        return False

    def in_thread(self, th, fn, *args):
        """run fn(*args) in the main thread or in a fresh worker thread of the same process"""
        if th in (None, "main"):
            return fn(*args)
        import threading
        box = {}

        def body():
            try:
                box["r"] = fn(*args)
            except BaseException as ex:      # the do_* functions catch everything themselves
                box["e"] = ex
        t = threading.Thread(target=body)
        t.start()
        t.join()
        if "e" in box:
            raise box["e"]
        return box["r"]

    def do_assign(self, value):
        try:
            self.xfab.CHECKS.activated = value
            out = "ok"
        except Exception as ex:
            out = "ValueError" if self.from_checks(ex) else "other:" + repr(ex)
        return out, bool(self.xfab.CHECKS.activated)

    def do_other_instance(self, value):
        """a private _checkState object: must not influence the package-wide switch"""
        from xfab import checks
        try:
            o = checks._checkState()
            o.activated = value
            out = "ok"
        except Exception as ex:
            out = "ValueError" if self.from_checks(ex) else "other:" + repr(ex)
        return out, bool(self.xfab.CHECKS.activated)

    def do_call(self, m, f, c, args, valid):
        mod = self.mods[m]
        try:
            res = getattr(mod, f)(*[a.copy() if hasattr(a, "copy") and not isinstance(a, list) else a for a in args])
            out = "returns" if valid else "unchecked"
        except Exception as ex:
            res = None
            if self.from_checks(ex):
                out = "CheckError"
            else:
                out = "unchecked" if not valid else "other:" + repr(ex)
        return out, res, bool(self.xfab.CHECKS.activated)

    def reference(self, m, f, args):
        """result with the switch on (for 'same value with the switch off')"""
        was = self.xfab.CHECKS._run_checks if hasattr(self.xfab.CHECKS, "_run_checks") else None
        sw = bool(self.xfab.CHECKS.activated)
        try:
            self.xfab.CHECKS.activated = True
            try:
                return getattr(self.mods[m], f)(*args)
            except Exception as ex:
                return ex
        finally:
            self.xfab.CHECKS.activated = sw


VALID = {"valid64", "valid32", "valid", "validubi", "validub"}


def same(a, b, np):
    if isinstance(a, tuple) and isinstance(b, tuple):
        return len(a) == len(b) and all(same(x, y, np) for x, y in zip(a, b))
    try:
        return bool(np.array_equal(np.asarray(a, dtype=float), np.asarray(b, dtype=float)))
    except Exception:
        return a == b


def replay_behaviour(w, hist, v, origin):
    """step one specification behaviour through the real package, comparing after every event"""
    np = w.np
    w.xfab.CHECKS.activated = True      # the model's initial state
    reuse = {}                          # within one behaviour the same (function, class) gets the byte-identical input:
                                        # a cached / memoised check that depends on the history is then exercised
    for k, e in enumerate(hist):
        if e["ev"] == "assign":
            out, sw = w.in_thread(e.get("th"), w.do_assign, w.assign_value(e["v"]))
            desc = "CHECKS.activated = %r%s" % (w.assign_value(e["v"]), " (in a worker thread)" if e.get("th") == "worker" else "")
        elif e["ev"] == "other_instance":
            out, sw = w.in_thread(e.get("th"), w.do_other_instance, w.assign_value(e["v"]))
            desc = "checks._checkState().activated = %r (a second instance)" % (w.assign_value(e["v"]),)
        else:
            key = (e["m"] if e["f"] in ("ubi_to_u", "ubi_to_u_and_eps", "ub_to_u_b", "ubi_to_rod", "ubi_to_u_b") else "", e["f"], e["c"])
            if key not in reuse:
                reuse[key] = w.make(e["m"], e["f"], e["c"])
            args = reuse[key]
            valid = e["c"] in VALID
            ref = w.reference(e["m"], e["f"], args) if valid else None
            out, res, sw = w.in_thread(e.get("th"), w.do_call, e["m"], e["f"], e["c"], args, valid)
            desc = "%s.%s(<%s>)%s" % (e["m"], e["f"], e["c"], " (in a worker thread)" if e.get("th") == "worker" else "")
            if valid and out == "returns" and not isinstance(ref, Exception) and not same(res, ref, np):
                v.violation("%s returns a different value with the switch %s than with it on" %
                            (desc, "on" if sw else "off"), {"behaviour": hist, "step": k, "origin": origin})
                return False
        if out != e["out"] or sw != e["sw"]:
            what = "after %s: outcome %s, switch %s; the specification says outcome %s, switch %s" % (
                desc, out, sw, e["out"], e["sw"])
            if e["ev"] == "call":
                what += " (input %s)" % (summarise(args),)
            v.violation(what, {"behaviour": hist, "step": k, "origin": origin,
                               "args": [a.tolist() if hasattr(a, "tolist") else a for a in args] if e["ev"] == "call" else None})
            return False
    return True


def summarise(args):
    out = []
    for a in args:
        if hasattr(a, "shape"):
            out.append("array%s" % (tuple(a.shape),))
        else:
            out.append(repr(a)[:40])
    return ", ".join(out)


def record_traces(w, n, maxlen, seed):
    """T: hypothesis-generated histories run against the real package; one event per call at return"""
    from hypothesis import given, settings, strategies as st, HealthCheck, seed as hseed
    assign_vals = ["True", "False", "int0", "int1", "None", "str_yes", "np_true", "np_false", "other_truthy", "other_falsy"]
    calls = []
    for m in ("tools", "laue"):
        for f, cs in (("u_to_euler", ["valid64", "valid32", "nonorth", "detm1", "scaled"]),
                      ("u_to_rod", ["valid64", "valid32", "nonorth", "detm1", "scaled"]),
                      ("u_to_ubi", ["valid64", "valid32", "nonorth", "detm1", "scaled"]),
                      ("euler_to_u", ["valid", "negative", "above2pi"]),
                      ("ubi_to_u", ["validubi", "lefthanded"]),
                      ("ubi_to_u_and_eps", ["validubi", "lefthanded"]),
                      ("ub_to_u_b", ["validub", "negdet"]),
                      ("ubi_to_rod", ["validubi", "lefthanded", "halfturn"]),
                      ("ubi_to_u_b", ["validubi", "lefthanded"])):
            calls += [(m, f, c) for c in cs]
    calls += [("symmetry", "Umis", c) for c in ["valid64", "valid32", "nonorth", "nonorth2", "detm1"]]
    ev0 = st.one_of(st.sampled_from(assign_vals).map(lambda x: ("assign", x)),
                    st.sampled_from(["True", "False", "int1"]).map(lambda x: ("other", x)),
                    st.sampled_from(calls).map(lambda x: ("call", x)))
    ev = st.tuples(ev0, st.sampled_from(["main", "main", "worker"])).map(lambda p: (p[0][0], p[0][1], p[1]))
    traces = []

    @hseed(seed)
    @settings(max_examples=n, deadline=None, database=None, derandomize=False,
              suppress_health_check=list(HealthCheck), phases=["generate"])
    @given(st.lists(ev, min_size=1, max_size=maxlen))
    def drive(seq):
        w.xfab.CHECKS.activated = True
        tr = []
        reuse = {}
        for kind, x, th in seq:
            if kind == "assign":
                out, sw = w.in_thread(th, w.do_assign, w.assign_value(x))
                tr.append({"ev": "assign", "v": x, "out": out, "sw": sw, "th": th})
            elif kind == "other":
                out, sw = w.in_thread(th, w.do_other_instance, w.assign_value(x))
                tr.append({"ev": "other_instance", "v": x, "out": out, "sw": sw, "th": th})
            else:
                m, f, c = x
                key = (m if f in ("ubi_to_u", "ubi_to_u_and_eps", "ub_to_u_b", "ubi_to_rod", "ubi_to_u_b") else "", f, c)
                if key not in reuse:
                    reuse[key] = w.make(m, f, c)
                args = reuse[key]
                out, res, sw = w.in_thread(th, w.do_call, m, f, c, args, c in VALID)
                tr.append({"ev": "call", "m": m, "f": f, "c": c, "out": out, "sw": sw, "th": th})
        traces.append(tr)

    drive()
    w.xfab.CHECKS.activated = True
    return traces


def rng_sample(lst, n, seed):
    r = random.Random(seed + 4242)
    return lst if len(lst) <= n else r.sample(lst, n)


def suite_trace(wd):
    """run the repository's test suite under harness/suite_plugin.py; returns the (run-length compressed) event list"""
    import json
    import os
    import subprocess
    import sys
    if not os.path.isdir(os.path.join(common.REPO, "test")):
        return None
    out = os.path.join(wd, "suite_trace.json")
    env = dict(os.environ, XFAB_SUITE_TRACE=out,
               PYTHONPATH=os.pathsep.join([os.path.dirname(os.path.abspath(__file__)), common.REPO]))
    p = subprocess.run([sys.executable, "-m", "pytest", "-q", "-p", "no:cacheprovider", "-p", "suite_plugin", "test"],
                       cwd=common.REPO, env=env, stdout=subprocess.PIPE, stderr=subprocess.STDOUT, timeout=1200)
    if not os.path.exists(out):
        raise common.MachineryError("suite trace was not written: %s" % p.stdout.decode("utf-8", "replace")[-800:])
    ev = json.load(open(out))
    os.remove(out)
    if not ev or ev[0].get("ev") != "init":
        raise common.MachineryError("suite trace does not start with the init record")
    # the model starts switched on; which state the package starts in is not part of the property - a package that starts switched
    # off is represented as the model's initial state followed by one valid assignment
    start_off = ev[0]["sw"] is not True
    # calls do not change the specification's state: between two assignments every distinct call event is kept once
    comp, seen = [], set()
    for e in ev[1:]:
        if e["ev"] == "call":
            k = (e["m"], e["f"], e["c"], e["out"], e["sw"])
            if k in seen:
                continue
            seen.add(k)
        else:
            seen = set()
        comp.append(e)
    if start_off:
        comp.insert(0, {"ev": "assign", "v": "False", "out": "ok", "sw": False, "th": "main"})
    return comp


def run(tier, seed):
    warnings.simplefilter("ignore")
    v = common.Verdict("C20", tier, seed)
    wd = common.workdir("C20")
    w = World(seed)
    states = trans = 0
    nb = 0
    try:
        # R, exhaustive
        r = common.run_tlc("Checks", "MC_Checks.cfg" if tier == "quick" else "MC_Checks3.cfg", wd, timeout=3000, heap="12g")
        if r.violated:
            raise common.MachineryError("Checks.tla violates its own invariants: %s" % r.violated)
        states += r.distinct
        trans += r.generated
        for x in r.records:
            nb += 1
            ok = replay_behaviour(w, x["hist"], v, "exhaustive")
            v.case(("B", repr(x["hist"])), sample=x["hist"] if len(v.samples) < 2 else None)
            if len(v.violations) > 200:
                break
        # R, exhaustive over a reduced alphabet with events issued from two threads of the process
        rT = common.run_tlc("Checks", "MC_ChecksT.cfg" if tier == "quick" else "MC_ChecksT3.cfg", wd, timeout=3000, heap="12g")
        if rT.violated:
            raise common.MachineryError("Checks.tla (two threads) violates its own invariants: %s" % rT.violated)
        states += rT.distinct
        trans += rT.generated
        recsT = rT.records if len(rT.records) <= 60000 else rng_sample(rT.records, 60000, seed)
        for x in recsT:
            nb += 1
            replay_behaviour(w, x["hist"], v, "exhaustive, two threads")
            v.case(("BT", repr(x["hist"])))
            if len(v.violations) > 200:
                break
        # R, long simulated behaviours
        nsim = 40 if tier == "quick" else 600
        rs = common.run_tlc("Checks", "MC_ChecksSim.cfg", wd, workers=1, timeout=1200,
                            simulate="num=%d" % nsim, extra=["-depth", "15", "-seed", str(seed + 1)])
        # TLC evaluates the emission on every successor of the last step: about 150 records per simulated behaviour that differ in the
        # last event only; a seeded sample of them is replayed
        for x in rng_sample(rs.records, 2500 if tier == "quick" else 40000, seed):
            nb += 1
            replay_behaviour(w, x["hist"], v, "simulation")
            v.case(("S", repr(x["hist"])), sample=x["hist"][:6] if len(v.samples) < 3 else None)
            if len(v.violations) > 200:
                break
        # R under `python -O` (the __debug__ coupling): DebugOn = FALSE in the model, replay in an optimised interpreter
        ro = common.run_tlc("Checks", "MC_ChecksO.cfg", wd, timeout=1200)
        if ro.violated:
            raise common.MachineryError("Checks.tla (DebugOn = FALSE) violates its own invariants: %s" % ro.violated)
        states += ro.distinct
        trans += ro.generated
        import json as _json
        import subprocess
        import sys as _sys
        bo = [x["hist"] for x in ro.records]
        bo = rng_sample(bo, 1500 if tier == "quick" else len(bo), seed)
        bf, of = os.path.join(wd, "o_behaviours.json"), os.path.join(wd, "o_result.json")
        _json.dump(bo, open(bf, "w"))
        env = dict(os.environ, PYTHONPATH=os.pathsep.join([os.path.dirname(os.path.abspath(__file__)), common.REPO]), VERIF_REPO=common.REPO)
        p = subprocess.run([_sys.executable, "-O", os.path.join(os.path.dirname(os.path.abspath(__file__)), "c20_o_worker.py"), bf, of, str(seed)],
                           env=env, stdout=subprocess.PIPE, stderr=subprocess.STDOUT, timeout=1800)
        if not os.path.exists(of):
            raise common.MachineryError("python -O worker failed: %s" % p.stdout.decode("utf-8", "replace")[-1500:])
        resO = _json.load(open(of))
        os.remove(bf)
        os.remove(of)
        nb += resO["n"]
        for q in resO["violations"]:
            v.violation("under python -O: " + q["what"], q["case"])
        # T, traces recorded from the implementation
        traces = record_traces(w, 200 if tier == "quick" else 2000, 30, seed)
        bad_out = [t for t in traces if any(str(e["out"]).startswith("other:") for e in t)]
        for t in bad_out[:5]:
            e = [q for q in t if str(q["out"]).startswith("other:")][0]
            v.violation("unexpected exception on a valid input / assignment: %s" % (e,), {"trace": t})
        good = [t for t in traces if t not in bad_out]
        # the repository's own suite as a third source of traces (its assertions are weak, its paths are real)
        suite = suite_trace(wd)
        if suite is not None:
            if any(str(e["out"]).startswith("other:") for e in suite):
                e = [q for q in suite if str(q["out"]).startswith("other:")][0]
                v.violation("while the repository's tests ran: unexpected exception on a valid input: %s" % (e,), {"event": e})
                suite = [q for q in suite if not str(q["out"]).startswith("other:")]
            good.append(suite)
        # binding demonstration, always on: two corrupted traces that MUST be rejected
        canary = [[{"ev": "assign", "v": "False", "out": "ok", "sw": True, "th": "main"}],                       # corrupted field
                  [{"ev": "call", "m": "tools", "f": "u_to_rod", "c": "nonorth", "out": "unchecked", "sw": False, "th": "worker"}]]  # dropped assignment
        for t_ in good:
            for e_ in t_:
                e_.setdefault("th", "main")
        common.write_data_module(wd, "ChecksTraces", {"Traces": good + canary})
        rt = common.run_tlc("Trace_Checks", "MC_Trace_Checks.cfg", wd, timeout=1800, depth_first=True)
        states += rt.distinct
        trans += rt.generated
        reach = {}
        for x in rt.records:
            reach[x["tid"]] = max(reach.get(x["tid"], 0), x["l"])
        acc = 0
        for j in range(len(good) + 1, len(good) + len(canary) + 1):
            if reach.get(j, 0) != 1:
                raise common.MachineryError("trace specification accepted a corrupted trace (canary %d): binding is vacuous" % j)
        for i, t in enumerate(good, start=1):
            v.case(("T", i), sample=t[:5] if len(v.samples) < 4 else None)
            if reach.get(i, 0) == len(t) + 1:
                acc += 1
            else:
                k = reach.get(i, 1)
                e = t[k - 1]
                v.violation("recorded trace rejected by Trace_Checks at event %d: %s (prefix of %d events is a behaviour of the "
                            "specification; this event's outcome/switch is not what the specification allows)" % (k, e, k - 1),
                            {"trace": t, "rejected_at": k})
        if rt.violated:
            v.violation("trace invariant violated in Trace_Checks: %s" % rt.violated, {})
    finally:
        w.xfab.CHECKS.activated = True
    if v.violations:
        seen = {}
        for q in v.violations:
            seen.setdefault(q["what"].split("(input")[0][:110], q)
        v.notes.append("%d violating behaviours collapsed to %d distinct messages" % (len(v.violations), len(seen)))
        v.violations = list(seen.values())
    cov = {"states": states, "transitions": trans, "traces_validated_against_impl": nb + len(good),
           "behaviours_replayed": nb, "impl_traces_validated": len(good), "impl_traces_accepted": acc,
           "suite_trace_events_after_compression": len(suite) if suite is not None else 0,
           "exhaustive": True,
           "rule": "R: every behaviour of Checks.tla with %d events (72 events: 10 assignment values, 3 second-instance assignments, 59 guarded calls x input "
                   "classes) + simulated behaviours of 14 events; T: hypothesis histories of <= 30 events recorded from the real "
                   "package and validated by TLC against Trace_Checks.tla" % (2 if tier == "quick" else 3)}
    if tier == "thorough":
        common.apalache_inductive(wd, "apalache/ChecksInd", "Inv", "IndInit", cov)
    return v.finish("model_checking", cov, ASSUME)


def replay(path, seed):
    import json
    common.use_repo()
    c = json.load(open(path))["case"]
    v = common.Verdict("C20", "quick", seed)
    w = World(seed)
    h = c.get("behaviour") or c.get("trace")
    ok = replay_behaviour(w, h, v, "replay")
    w.xfab.CHECKS.activated = True
    for q in v.violations:
        print("VIOLATION property=C20 replay=%s  # %s" % (path, q["what"][:200]))
    return 0 if ok else 1
