"""C13 - strain and strained B matrix are exact inverses; UBI yields back U and strain.

TLC (spec/Strain.tla): integer upper-triangular (B0, B) pairs with exact strain numerators over 2 det B, Cayley U;
paths b_to_epsilon -> epsilon_to_b, the _old pair, and UBI -> ubi_to_u_and_eps.  Replay in both modules with the
three-way verdict (requirement / named deviation 'missing 2pi' / code).
"""
import math
import random
import warnings

import common
import genhkl_lib as gl
import lattice_lib as L

F_2PI = "ubi-to-u-and-eps-missing-2pi"
ASSUME = [
    "B0, B integer upper-triangular with positive diagonal; float inputs are (2pi)^w s B; the unstrained cell is the float image of the "
    "reciprocal metric s^2 B0'B0 (form_b_mat of that cell is (2pi)^w s B0 by uniqueness of the Cholesky factor - checked as 'zero strain')",
    "strain components |eps_ij| <= 0.1 (filtered exactly in the model); tolerance 1e-9",
]


def draw_case(rng):
    while True:
        k = rng.randint(12, 40)
        d = [rng.choice([1, 1, 2]) for _ in range(3)]
        o = [rng.randint(-1, 1) for _ in range(3)]
        B0 = [[k * d[0], k * o[0], k * o[1]], [0, k * d[1], k * o[2]], [0, 0, k * d[2]]]
        g = [B0[0][0] ** 2, B0[0][1] ** 2 + B0[1][1] ** 2, B0[0][2] ** 2 + B0[1][2] ** 2 + B0[2][2] ** 2,
             B0[0][1] * B0[0][2] + B0[1][1] * B0[1][2], B0[0][0] * B0[0][2], B0[0][0] * B0[0][1]]
        if not (gl.spd(g) and gl.gram_ok([x // (k * k) for x in g])):
            continue
        B = [row[:] for row in B0]
        zero = rng.random() < 0.08
        if not zero:
            for i in range(3):
                for j in range(i, 3):
                    B[i][j] += rng.randint(-1, 1)
        p = [rng.randint(-4, 4) for _ in range(3)]
        q = rng.randint(1, 4)
        return [B0, B, p, q]


def worker(a):
    """every third case runs with the input checks switched off: strain conversions of valid inputs do not depend on the switch"""
    rec, s_ = a
    off = (len(rec["path"]) + int(rec["D"])) % 3 == 0
    with L.switch_off(off):
        n, out, known = _worker(a)
    if off:
        out = [o + " [input checks switched off]" for o in out]
    return n, out, known


def _worker(a):
    rec, s = a
    import importlib
    import numpy as np
    out = []
    known = 0
    n = 0
    B0 = np.array(rec["B0"], dtype=float)
    B = np.array(rec["B"], dtype=float)
    eps = [x / rec["epsden"] for x in rec["epsnum"]]
    Uex = np.array(rec["N"], dtype=float).T / rec["D"]
    cell0 = gl.cell_from_recip_metric(rec["gstar"], s * s)
    for modname in ("tools", "laue"):
        mod = importlib.import_module("xfab." + modname)
        w1 = L.TWO_PI if L.W[modname] else 1.0
        Bs, B0s = w1 * s * B, w1 * s * B0
        tag = "xfab.%s B0=%s B=%s s=%.4g" % (modname, rec["B0"], rec["B"], s)
        def G(f, *args):
            r, m_ = L.twice(f, *args)
            if m_:
                out.append(m_ + " (%s)" % tag)
            return r
        try:
            # integer-typed reference cells first (a list of Python ints, an integer array): zero strain gives the unstrained B, the
            # unstrained B gives zero strain, for both pairs of functions
            for ic in ([4, 5, 6, 90, 90, 90], np.array([4, 4, 4, 90, 90, 90]), [3, 3, 5, 90, 90, 120]):
                fc = [float(q_) for q_ in ic]
                Bref = np.asarray(mod.form_b_mat(fc), dtype=float)
                for nm_, fn_ in (("epsilon_to_b", mod.epsilon_to_b), ("epsilon_to_b_old", mod.epsilon_to_b_old)):
                    if not L.close(fn_([0, 0, 0, 0, 0, 0], ic), Bref):
                        out.append("%s(zero strain) on the integer-typed cell %s differs from form_b_mat of the same cell as floats (xfab.%s)" % (nm_, list(ic), modname))
                for nm_, fn_ in (("b_to_epsilon", mod.b_to_epsilon), ("b_to_epsilon_old", mod.b_to_epsilon_old)):
                    if not L.close(fn_(Bref, ic), np.zeros(6), scale=1.0):
                        out.append("%s(unstrained B) on the integer-typed cell %s is not zero (xfab.%s)" % (nm_, list(ic), modname))
            n += 2
            # a reference cell that differs in the seventh digit is used first (results discarded): a value remembered per
            # (rounded) cell must not leak into the calls on cell0
            nb = [x * (1 + 3e-7) if j < 3 else x for j, x in enumerate(cell0)]
            for f_ in (mod.epsilon_to_b, mod.epsilon_to_b_old):
                f_([0.0] * 6, nb)
            mod.b_to_epsilon(Bs, nb)
            mod.b_to_epsilon_old(Bs, nb)
            mod.form_b_mat(nb)
            if not L.close(mod.form_b_mat(cell0), B0s):
                out.append("form_b_mat(cell) differs from the Cholesky factor of the cell's reciprocal metric (%s)" % tag)
            if not L.close(mod.epsilon_to_b([0.0] * 6, cell0), B0s):
                out.append("epsilon_to_b(zero strain) differs from the unstrained B (%s)" % tag)
            if not L.close(mod.epsilon_to_b_old([0.0] * 6, cell0), B0s):
                out.append("epsilon_to_b_old(zero strain) differs from the unstrained B (%s)" % tag)
            cur = Bs
            for step in rec["path"]:
                n += 1
                if step == "b_to_epsilon":
                    e = np.asarray(G(mod.b_to_epsilon, cur, cell0), dtype=float)
                    if not L.close(e, np.array(eps), scale=1.0):
                        out.append("b_to_epsilon gives %s, sym(B0.inv(B)) - I is %s (%s)" % (e.tolist(), eps, tag))
                    cur = eps
                elif step == "epsilon_to_b":
                    # the strain both as a list and as a float64 array (the caller's array must be left alone), every time
                    for cur_ in ([float(q_) for q_ in cur], np.array(cur, dtype=float)):
                        b = np.asarray(G(mod.epsilon_to_b, cur_, cell0), dtype=float)
                        if not L.close(b, Bs):
                            out.append("epsilon_to_b(b_to_epsilon(B)) differs from B by %.3g relative (%s)" %
                                       (float(np.abs(b - Bs).max() / np.abs(Bs).max()), tag))
                            break
                    cur = Bs
                elif step == "b_to_epsilon_old":
                    cur = list(G(mod.b_to_epsilon_old, cur, cell0))
                    if np.allclose(B, B0) and not L.close(cur, np.zeros(6), scale=1.0):
                        out.append("b_to_epsilon_old of the unstrained B is not zero (%s)" % tag)
                elif step == "epsilon_to_b_old":
                    for cur_ in ([float(q_) for q_ in cur], np.array(cur, dtype=float)):
                        b = np.asarray(G(mod.epsilon_to_b_old, cur_, cell0), dtype=float)
                        if not L.close(b, Bs):
                            out.append("epsilon_to_b_old(b_to_epsilon_old(B)) differs from B by %.3g relative (%s)" %
                                       (float(np.abs(b - Bs).max() / np.abs(Bs).max()), tag))
                            break
                    cur = Bs
                elif step == "make_ubi":
                    cur = np.linalg.inv(Uex.dot(Bs)) * w1
                elif step == "ubi_to_u_and_eps":
                    U, e = G(mod.ubi_to_u_and_eps, cur, cell0)
                    e = np.asarray(e, dtype=float)
                    if not L.close(U, Uex, scale=1.0):
                        out.append("ubi_to_u_and_eps: U differs from the rotation the UBI was built from (%s)" % tag)
                    if not L.close(e, np.array(eps), scale=1.0):
                        # deviation model: strain evaluated on B/(2pi): eps_code + I = 2pi (eps + I)
                        I6 = np.array([1, 0, 0, 1, 0, 1], dtype=float)
                        dev = L.TWO_PI * (np.array(eps) + I6) - I6
                        if modname == "tools" and L.close(e, dev, scale=10.0) and L.close(U, Uex, scale=1.0):
                            known += 1
                        else:
                            out.append("ubi_to_u_and_eps gives strain %s, the UBI was built from strain %s (%s)" % (e.tolist(), eps, tag))
                else:
                    out.append("unknown step " + step)
        except Exception as ex:
            out.append("exception %r at %s (%s)" % (ex, rec["path"], tag))
    return n, out, known


def run(tier, seed, pid="C13"):
    warnings.simplefilter("ignore")
    v = common.Verdict(pid, tier, seed)
    wd = common.workdir(pid)
    rng = random.Random(seed + 13)
    ncases = 150 if tier == "quick" else 8000
    cases = [draw_case(rng) for _ in range(ncases)]
    common.write_data_module(wd, "StrainCases", {"Cases": common.TlaSet(cases)})
    r = common.run_tlc("Strain", "MC_Strain.cfg", wd, timeout=3000, heap="12g")
    if r.violated:
        raise common.MachineryError("Strain.tla: model-level identity violated: %s" % r.violated)
    recs = [x for x in r.records if x["inrange"]]
    # strains with components of very different size (3e-7 next to 1e-3): integer pairs (B0, B) with entries of 2e6, exact strain by the
    # same formulas as Strain.tla (X = B0.adj B; numerators over 2 det B) in unbounded Python integers; same record format
    def adj3(M):
        return [[M[(j + 1) % 3][(i + 1) % 3] * M[(j + 2) % 3][(i + 2) % 3] - M[(j + 1) % 3][(i + 2) % 3] * M[(j + 2) % 3][(i + 1) % 3] for j in range(3)] for i in range(3)]
    def mm(A_, B_):
        return [[sum(A_[i][k] * B_[k][j] for k in range(3)) for j in range(3)] for i in range(3)]
    base = [x for x in recs if len(x["path"]) >= 2][: (12 if tier == "quick" else 200)]
    small = []
    for x in base:
        Nsc = 2000000
        B0b = [[Nsc * e for e in row] for row in x["B0"]]
        Bb = [list(row) for row in B0b]
        i_, j_ = rng.choice([(0, 0), (1, 1), (2, 2), (0, 1), (0, 2), (1, 2)])
        Bb[i_][j_] += rng.choice([-3, -1, 1, 2])                       # a strain component of a few 1e-7
        k_ = rng.choice([0, 1, 2])
        Bb[k_][k_] += rng.choice([-1, 1]) * rng.randint(1000, 20000)    # and one of 1e-4 .. 1e-3
        Adj = adj3(Bb)
        det = sum(Bb[0][k] * Adj[k][0] for k in range(3))
        X = mm(B0b, Adj)
        epsnum = [2 * X[0][0] - 2 * det, X[0][1] + X[1][0], X[0][2] + X[2][0], 2 * X[1][1] - 2 * det, X[1][2] + X[2][1], 2 * X[2][2] - 2 * det]
        gst = mm([list(r_) for r_ in zip(*B0b)], B0b)
        small.append(dict(x, B0=B0b, B=Bb, epsnum=epsnum, epsden=2 * det,
                          gstar=[gst[0][0], gst[1][1], gst[2][2], gst[1][2], gst[0][2], gst[0][1]]))
    s = rng.uniform(0.002, 0.02)
    recs = recs + small
    # ... and cells of protein size (edges of hundreds of Angstrom, volume far above 1e6 A^3: det B'B = 1/V^2 is below 1e-12) and tiny ones
    extreme = [dict(x) for x in recs[:: max(1, len(recs) // (20 if tier == "quick" else 400))] if x["B0"][0][0] < 1000000]
    work = [(x, s if x["B0"][0][0] < 1000000 else s / 2000000.0) for x in recs]
    work += [(x, s * 0.01) for x in extreme[::2]] + [(x, s * 300.0) for x in extreme[1::2]]
    recs = recs + extreme[::2] + extreme[1::2]
    res = common.pmap(worker, work)
    ncalls = 0
    for x, (n, out, known) in zip(recs, res):
        ncalls += n
        v.case((repr(x["B0"]), repr(x["B"]), tuple(x["path"])),
               sample={"B0": x["B0"], "B": x["B"], "strain_numerators": x["epsnum"], "over": x["epsden"], "path": x["path"]}
               if len(v.samples) < 3 and any(x["epsnum"]) else None)
        for _ in range(known):
            if v.is_listed(F_2PI):
                v.known_finding(F_2PI)
            else:
                out.append("tools.ubi_to_u_and_eps returns 2pi(eps+I)-I instead of eps for a UBI in the module's own convention")
        for o in out[:2]:
            v.violation(o, {"B0": x["B0"], "B": x["B"], "p": x["p"], "q": x["q"], "path": x["path"], "scale": s})
    if v.violations:
        seen = {}
        for q in v.violations:
            seen.setdefault(q["what"].split("(")[0][:50] + ("tools" if "xfab.tools" in q["what"] else "laue"), q)
        v.notes.append("%d violating observations collapsed to %d" % (len(v.violations), len(seen)))
        v.violations = list(seen.values())
    cov = {"states": r.distinct, "transitions": r.generated, "traces_validated_against_impl": len(recs),
           "cases_in_strain_range": len(recs), "cases_drawn": ncases, "function_calls": ncalls, "exhaustive": False,
           "rule": "behaviour = (integer B0, B within strain 0.1, Cayley U, path of depth 4 through the strain converters); seeded cases"}
    return v.finish("model_checking", cov, ASSUME)


def replay(path, seed):
    return run("quick", seed)
