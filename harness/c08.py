"""C08 - structure factor equals the explicit sum over the unit-cell contents.

TLC (spec/StructFac.tla) produces, for (setting, exact position p/N, hkl), the orbit of the atom with the exact phase
index h.q mod N of every orbit point, how many operations map onto it (orbit-stabiliser) and one operation that does.
The harness assembles the P1 sum  sum_atoms occ (f(s)+f'+i f'') sum_{q in orbit} DW_q exp(2 pi i phi_q / N)  from these
exact phases, an independent evaluation of the exported form-factor coefficients and s^2 = c Q*(h)/4, and compares
StructureFactor with it; four corollaries are run as metamorphic calls.
"""
import cmath
import math
import random
import warnings

import common
import export
import c15
import genhkl_lib as gl
import sf_lib as S

ASSUME = [
    "special positions carry only site-symmetric displacement parameters: Uiso, none, or the anisotropic tensor equivalent to Uiso; generic "
    "Uani only on general positions (orbit point <-> operation is then one-to-one)",
    "site multiplicity handed to the code is the orbit size computed by the model",
    "tolerance S*(1e-9 + 2pi*|h|_1*1e-6*[thirds]) with S the total scattering power; form factor from an independent evaluation of the exported record",
]


def worker(a):
    recs, tab, met, c, cell, spec, disp, ff = a
    import numpy as np
    out = []
    n = 0
    h = recs[0]["cs"]["h"]
    name = tab["name_text"]
    s2 = c * S.qform(met, h) / 4.0
    scat = sum(sp["occ"] * len(r["orbit"]) * 30.0 for sp, r in zip(spec, recs))
    tol = scat * (1e-9 + (2 * math.pi * sum(abs(x) for x in h) * 1e-6 if tab["thirds"] else 0.0)) + 1e-12
    tag = "Sg%d %s hkl %s" % (tab["no"], name, h)
    R = [np.array(r, dtype=float) for r in tab["rot"]]
    def oracle(cc, build, met=met):
        """explicit P1 sum for the scale cc of the reciprocal metric"""
        s2_ = cc * S.qform(met, h) / 4.0
        tot = 0j
        ats = []
        for sp, r in zip(spec, recs):
            N = r["cs"]["N"]
            f = S.f0(ff[sp["el"]], s2_)
            fp, fpp = (disp.get(sp["el"]) or (0.0, 0.0)) if disp is not None else (0.0, 0.0)
            acc = 0j
            for (q, count, phase, rot) in r["orbit"]:
                if sp["adp_type"] == "Uiso":
                    dw = math.exp(-8 * math.pi ** 2 * sp["adp"] * s2_)
                elif sp["adp_type"] == "Uani":
                    hr = np.array(h, dtype=float).dot(R[rot - 1])
                    dw = math.exp(-hr.dot(S.beta_from_u(sp["adp"], met, cc)).dot(hr))
                else:
                    dw = 1.0
                acc += dw * cmath.exp(2j * math.pi * phase / N)
            tot += sp["occ"] * complex(f + fp, fpp) * acc
            if build:
                pos = [x / N + sh for x, sh in zip(r["cs"]["p"], sp["shift"])]
                ats.append(S.make_atom(sp["label"], sp["el"], pos, sp["adp_type"], sp["adp"], sp["occ"], len(r["orbit"])))
        return tot, ats
    want, atoms = oracle(c, True)
    try:
        F = S.call_sf(h, cell, name, atoms, disp)
        n += 1
        if not (abs(F - want) <= tol):
            out.append("StructureFactor = %r, explicit sum over the cell contents = %r (|diff| %.3g > %.2g; atoms %s; dispersion %s) (%s)" %
                       (F, want, abs(F - want), tol, [(sp["el"], sp["adp_type"], len(r["orbit"])) for sp, r in zip(spec, recs)],
                        "none" if disp is None else disp, tag))
        # the SAME atom objects in another cell (same reciprocal metric, another scale): nothing derived from the first cell
        # may stick to the atoms
        c2 = c * 1.37
        cell2 = gl.cell_from_recip_metric(met, c2)
        want2, _ = oracle(c2, False)
        Fb = S.call_sf(h, cell2, name, atoms, disp)
        if not (abs(Fb - want2) <= tol):
            out.append("StructureFactor on the same atom objects in a second cell = %r, explicit sum = %r (|diff| %.3g): something computed for the "
                       "first cell is reused (%s)" % (Fb, want2, abs(Fb - want2), tag))
        # ... and in a cell with the SAME edge lengths but another angle (triclinic and monoclinic groups): whatever is remembered per
        # (a, b, c) must not be taken for the cell.  The oracle runs on the float reciprocal metric of that cell.
        if tab["crystal_system"] in ("triclinic", "monoclinic"):
            cell3 = [float(q_) for q_ in cell]
            cell3[4] = cell3[4] + (7.0 if cell3[4] < 120 else -7.0)
            ca, cb, cg = [math.cos(math.radians(q_)) for q_ in cell3[3:]]
            a_, b_, c_ = cell3[:3]
            Gd = np.array([[a_ * a_, a_ * b_ * cg, a_ * c_ * cb], [a_ * b_ * cg, b_ * b_, b_ * c_ * ca], [a_ * c_ * cb, b_ * c_ * ca, c_ * c_]])
            if np.linalg.det(Gd) > 1e-3 * (a_ * b_ * c_) ** 2:
                Gs = np.linalg.inv(Gd)
                met3 = [Gs[0, 0], Gs[1, 1], Gs[2, 2], Gs[1, 2], Gs[0, 2], Gs[0, 1]]
                want3, _ = oracle(1.0, False, met3)
                Fc = S.call_sf(h, cell3, name, atoms, disp)
                if not (abs(Fc - want3) <= tol):
                    out.append("StructureFactor on the same atom objects in a cell with the same edge lengths and another angle = %r, explicit sum = %r "
                               "(|diff| %.3g): something remembered per (a, b, c) is reused (%s)" % (Fc, want3, abs(Fc - want3), tag))
        # a split site: the atom sits 3e-6 away from a special position and is DECLARED general (symmulti = number of operations, half
        # occupancy) - disorder over a symmetry element.  The sum over the cell is the plain sum over all operations; images that nearly
        # coincide are still separate atoms because the caller says so
        r0 = recs[0]
        if len(r0["orbit"]) < tab["nsymop"]:
            N0 = r0["cs"]["N"]
            p_split = [x / N0 + d_ for x, d_ in zip(r0["cs"]["p"], (3e-6, 2e-6, 1e-6))]
            el0 = spec[0]["el"]
            f_ = S.f0(ff[el0], c * S.qform(met, h) / 4.0)
            tot_ = 0j
            hv = np.array(h, dtype=float)
            for R_, t_ in zip(tab["rot"], tab["trans"]):
                img = np.array(R_, dtype=float).dot(np.array(p_split)) + np.array(t_, dtype=float) / 24.0
                tot_ += cmath.exp(2j * math.pi * hv.dot(img))
            want_s = 0.5 * f_ * tot_
            Fs = S.call_sf(h, cell, name, [S.make_atom("X1", el0, p_split, None, 0.0, 0.5, tab["nsymop"])], None)
            if not (abs(Fs - want_s) <= tol + 1e-4 * abs(f_) * tab["nsymop"] * sum(abs(q_) for q_ in h) * 1e-3):
                out.append("StructureFactor of an atom declared general (symmulti = %d) 3e-6 from a special position = %r, sum over all operations = %r "
                           "(the declared multiplicity is part of the input) (%s)" % (tab["nsymop"], Fs, want_s, tag))
        # corollaries
        sh_atoms = [S.make_atom(a_.label, a_.atomtype, [x + d for x, d in zip(a_.pos, (1, -2, 3))], a_.adp_type, a_.adp, a_.occ, a_.symmulti)
                    for a_ in atoms]
        F2 = S.call_sf(h, cell, name, sh_atoms, disp)
        if not (abs(F2 - F) <= tol):
            out.append("F changes by %.3g when the atoms are shifted by a lattice vector (%s)" % (abs(F2 - F), tag))
        half = [S.make_atom(a_.label, a_.atomtype, a_.pos, a_.adp_type, a_.adp, a_.occ / 2.0, a_.symmulti) for a_ in atoms]
        triple = [S.make_atom(a_.label, a_.atomtype, a_.pos, a_.adp_type, a_.adp, a_.occ * 3.0, a_.symmulti) for a_ in atoms]
        F9 = S.call_sf(h, cell, name, triple, disp)
        if not (abs(F9 - 3 * F) <= tol * 3):
            out.append("F is not linear in occupancy: F(3 occ) - 3 F(occ) = %.3g (%s)" % (abs(F9 - 3 * F), tag))
        F3 = S.call_sf(h, cell, name, half, disp)
        if not (abs(2 * F3 - F) <= tol):
            out.append("F is not linear in occupancy: 2 F(occ/2) - F(occ) = %.3g (%s)" % (abs(2 * F3 - F), tag))
        iso = [a_ for a_ in atoms if a_.adp_type == "Uiso"]
        if iso:
            eq = [S.make_atom(a_.label, a_.atomtype, a_.pos, "Uani", S.iso_uani(a_.adp, met), a_.occ, a_.symmulti) if a_.adp_type == "Uiso" else a_
                  for a_ in atoms]
            F4 = S.call_sf(h, cell, name, eq, disp)
            if not (abs(F4 - F) <= tol):
                out.append("isotropic U and the equivalent anisotropic tensor give different F (|diff| %.3g) (%s)" % (abs(F4 - F), tag))
        n += 3
        # F(000) with zero displacement
        z = [S.make_atom(a_.label, a_.atomtype, a_.pos, None, 0.0, a_.occ, a_.symmulti) for a_ in atoms]
        F0 = S.call_sf([0, 0, 0], cell, name, z, disp)
        w0 = sum(a_.occ * a_.symmulti * complex(S.f0(ff[a_.atomtype], 0.0) + ((disp.get(a_.atomtype) or (0, 0))[0] if disp else 0.0),
                                              ((disp.get(a_.atomtype) or (0, 0))[1] if disp else 0.0)) for a_ in atoms)
        if not (abs(F0 - w0) <= 1e-9 * max(1.0, abs(w0))):
            out.append("F(000) with zero displacement = %r, occupancy-weighted form-factor sum = %r (%s)" % (F0, w0, tag))
        n += 1
    except Exception as ex:
        out.append("exception %r (%s)" % (ex, tag))
    return n, out


def run(tier, seed):
    warnings.simplefilter("ignore")
    v = common.Verdict("C08", tier, seed)
    wd = common.workdir("C08")
    tabs, dic = export.write_tables_module(wd)
    rng = random.Random(seed + 8)
    ff = S.formfactor_table()
    fam = c15.families()
    grid = [([a, b, c_], 24) for a in c15.GRID for b in c15.GRID for c_ in c15.GRID]
    if tier == "quick":
        # all Laue classes / centrings / crystal systems: every 4th setting plus all with cell_choice variants
        sel = [i for i, t in enumerate(tabs) if i % 4 == 0 or t["setting"] == "rhombohedral" or t["no"] in (1, 2, 14, 62, 88, 139, 148, 167, 194, 205, 225, 227, 230)]
    else:
        sel = list(range(len(tabs)))
    groups = []
    cases = []
    for ti in sel:
        t = tabs[ti]
        nh = 3 if tier == "quick" else 6
        hs = [[0, 0, 0]] + [[rng.randint(-5, 5) for _ in range(3)] for _ in range(nh - 1)]
        pts = [rng.choice(fam), rng.choice(grid), ([rng.randint(1, 2399) for _ in range(3)], 2400), rng.choice(fam)]
        groups.append((ti, hs, pts))
        for h in hs:
            for (p, N) in pts:
                cases.append({"t": ti + 1, "N": N, "p": p, "h": h})
    # de-duplicate
    uniq = {}
    for cs in cases:
        uniq[repr(cs)] = cs
    common.write_data_module(wd, "SfCases", {"Cases": common.TlaSet(list(uniq.values()))})
    r = common.run_tlc("StructFac", "MC_StructFac.cfg", wd, timeout=3000, heap="12g")
    if r.violated:
        v.violation("StructFac.tla invariant(s) violated on the exported tables: %s" % r.violated, {"invariants": r.violated})
    index = {}
    for x in r.records:
        cs = x["cs"]
        index[(cs["t"], cs["N"], tuple(cs["p"]), tuple(cs["h"]))] = x
    todo = []
    for (ti, hs, pts) in groups:
        t = tabs[ti]
        met = gl.conforming_metrics(t["crystal_system"], t["cell_choice"], rng, 2)[-1]
        c = 0.01 * rng.uniform(0.7, 1.6)
        cell = gl.cell_from_recip_metric(met, c)
        for h in hs:
            recs = [index[(ti + 1, N, tuple(p), tuple(h))] for (p, N) in pts]
            spec = []
            for i, x in enumerate(recs):
                general = len(x["orbit"]) == t["nsymop"]
                kind = rng.choice(["Uiso", "Uani", "UaniSpecial", None]) if general else rng.choice(["Uiso", None, "UaniIso"])
                # mostly ordinary values; now and then the very large ones of disordered solvent (U up to 2.5 A^2, B up to 200)
                uiso = rng.uniform(0.005, 0.05) if rng.random() < 0.8 else rng.choice([0.0, 0.9, 1.0, 1.2, 2.5])
                if kind == "Uani":
                    adp = S.random_uani(rng, met, c)
                elif kind == "UaniSpecial":
                    # tensors of special form with exact equalities and exact zeros (equal diagonal, diagonal, axial, the hexagonal
                    # constraint U12 = U11/2): on a general position every one is legal, and in an oblique cell none of them is
                    # isotropic - a fast path that takes [u,u,u,0,0,0] for a sphere is wrong wherever a reciprocal angle is not 90
                    u_, w_, x_ = rng.choice([0.01, 0.02, 0.035]), rng.choice([0.015, 0.04]), rng.choice([0.006, 0.025])
                    kind, adp = "Uani", rng.choice([[u_, u_, u_, 0.0, 0.0, 0.0], [u_, u_, u_, 0, 0, 0], [u_, w_, x_, 0.0, 0.0, 0.0],
                                                    [u_, u_, w_, 0.0, 0.0, 0.0], [u_, u_, w_, 0.0, 0.0, u_ / 2]])
                elif kind == "UaniIso":
                    kind, adp = "Uani", S.iso_uani(uiso, met)
                elif kind == "Uiso":
                    adp = uiso
                else:
                    adp = 0.0
                spec.append({"label": "A%d" % i, "el": rng.choice(S.ELEMENTS), "adp_type": kind, "adp": adp,
                             "occ": rng.choice([rng.uniform(0.2, 1.0), rng.uniform(0.2, 1.0), 1.0, 0.0, rng.uniform(1.0, 2.5)]), "shift": (0, 0, 0) if i % 2 else (1, 0, -1)})
            mode = rng.choice(["none", "full", "partial"])
            if mode == "none":
                disp = None
            else:
                disp = {}
                for sp in spec:
                    disp[sp["el"]] = [rng.uniform(-1.5, 0.5), rng.uniform(0.0, 2.0)]
                if mode == "partial":
                    disp[spec[0]["el"]] = None
            todo.append((recs, t, met, c, cell, spec, disp, ff))
    res = common.pmap(worker, todo, chunk=2)
    ncalls = 0
    nspecial = 0
    for (recs, t, met, c, cell, spec, disp, _ff), (n, out) in zip(todo, res):
        ncalls += n
        nspecial += sum(1 for x in recs if len(x["orbit"]) != t["nsymop"])
        v.case((t["no"], t["setting"], tuple(recs[0]["cs"]["h"])),
               sample={"sg": [t["no"], t["name_text"]], "hkl": recs[0]["cs"]["h"],
                       "atoms": [{"pos": "%s/%d" % (x["cs"]["p"], x["cs"]["N"]), "orbit_size": len(x["orbit"]), "adp": sp["adp_type"]}
                                 for sp, x in zip(spec, recs)]} if len(v.samples) < 3 and t["nuniq"] > 4 else None)
        for o in out[:2]:
            v.violation(o, {"sg": [t["no"], t["setting"], t["name_text"]], "hkl": recs[0]["cs"]["h"], "cell": cell,
                            "atoms": [{"pos": x["cs"]["p"], "N": x["cs"]["N"], **{k: sp[k] for k in ("el", "adp_type", "adp", "occ")}}
                                      for sp, x in zip(spec, recs)], "dispersion": disp})
    if v.violations:
        seen = {}
        for q in v.violations:
            seen.setdefault((tuple(q["case"].get("sg", ["model"])[:2]), q["what"][:25]), q)
        v.notes.append("%d violating reflections collapsed to %d" % (len(v.violations), len(seen)))
        v.violations = list(seen.values())
        v.max_replays = 40
    cov = {"states": r.distinct, "transitions": r.generated, "traces_validated_against_impl": len(todo),
           "structure_factor_calls": ncalls, "settings": len(sel), "atoms_on_special_positions": nspecial, "exhaustive": False,
           "rule": "case = (setting, hkl incl. 000, 4 atoms: special-position family member, grid point, generic position, family member) "
                   "with Uiso / Uani / no ADP and dispersion present, partially None or absent; explicit P1 sum from TLC's exact orbit phases"}
    return v.finish("model_checking", cov, ASSUME)


def replay(path, seed):
    return run("quick", seed)
