"""C16 - atomic form factors are physical: f(0) = Z, positive and decreasing.

TLC (spec/FormFactor.tla) decides exactly, on the coefficient records exported from the tree (scaled to integers), for
every entry: |sum a_i + c - Z| <= 0.1 with Z from the specification's own periodic table, all b_i > 0, and the sign
patterns that settle monotonic decrease / positivity analytically.  What TLC cannot evaluate (exponentials) is done by
replay: FormFactor(el, s) against an independent evaluation of the exported record on a grid of s, and - for entries not
settled analytically - positivity and monotonic decrease on that grid.
"""
import math
import warnings

import common
import export

ASSUME = [
    "coefficients are exported x 10^6 as integers (6 decimals, as tabulated)",
    "monotonic decrease follows analytically when every a_i b_i > 0; positivity then needs only f(2) > 0; entries with other sign "
    "patterns are evaluated on the grid s = k/1000 (quick) or k/10000 (thorough), k in 0..2/step",
]


def run(tier, seed):
    warnings.simplefilter("ignore")
    v = common.Verdict("C16", tier, seed)
    wd = common.workdir("C16")
    ff = export.export_formfactor()
    common.write_data_module(wd, "XfabFormFactor", {"Coeffs": [{"el": r["el"], "c": (r["c"] + [0] * 9)[:9], "n": r["n"]} for r in ff]})
    r = common.run_tlc("FormFactor", "MC_FormFactor.cfg", wd, timeout=600)
    from xfab import structure
    import numpy as np
    common.package_in_use()
    coef = {q["el"]: [x / 1e6 for x in q["c"]] for q in ff}
    step = 1000 if tier == "quick" else 10000
    grid = [k / float(step) for k in range(0, 2 * step + 1)]
    nev = 0
    if r.records and not r.records[0]["complete"]:
        v.violation("the form-factor table does not hold exactly one entry for each of the 94 elements H..Pu", {})
    for x in sorted(r.records, key=lambda q: q["Z"]):
        el = x["el"]
        desc = {"element": el, "Z": x["Z"], "f0": x["f0"] / 1e6, "settled_analytically": {"monotone": x["monotone"], "positive": x["positive"]}}
        v.case(el, sample=desc if len(v.samples) < 4 and x["Z"] in (6, 7, 17, 78) else None)
        if not x["f0ok"]:
            v.violation("form factor of %s at sin(theta)/lambda = 0 is %.4f, atomic number %d (more than 0.1 electron off)" %
                        (el, x["f0"] / 1e6, x["Z"]), desc)
        if not x["bpos"]:
            v.violation("form factor of %s has a non-positive exponent coefficient b_i" % el, desc)
        c = coef[el]
        if x["Z"] % 2 == 1:
            # (for every other element BEFORE anything else is asked about it: what the first call leaves behind must not colour later ones)
            # integer-typed arguments: the literal 0 (forward scattering, f = Z), 1, 2, numpy integers, an integer grid
            for sint in (np.float32(0.5), np.array([0.25, 1.5], dtype=np.float32), 0, 1, 2, np.int64(0), np.int32(1), np.arange(3), [0, 1, 2], np.uint8(1), np.uint16(2),
                         np.arange(3, dtype=np.uint32)):
                try:
                    got = np.asarray(structure.FormFactor(el, sint if not isinstance(sint, list) else np.array(sint)), dtype=float)
                except Exception as ex:
                    v.violation("FormFactor(%s, %r) raised %r" % (el, sint, ex), desc)
                    break
                nev += 1
                sv = np.asarray(sint, dtype=float)
                want = sum(c[i] * np.exp(-c[i + 4] * sv * sv) for i in range(4)) + c[8]
                rel = 1e-9 if not (hasattr(sint, "dtype") and sint.dtype == np.float32) else 1e-5
                if got.shape != np.shape(want) or not np.all(np.isfinite(got)) or not (np.abs(got - want).max() <= rel * max(1.0, float(np.abs(want).max()))):
                    v.violation("FormFactor(%s, %r) = %s for an integer-typed argument, sum a_i exp(-b_i s^2) + c = %s" %
                                (el, sint, got.tolist(), np.asarray(want).tolist()), desc)
                    break
        vals = []
        bad = None
        for s in grid[:: (1 if not x["monotone"] or tier == "thorough" else 10)]:
            want = sum(c[i] * math.exp(-c[i + 4] * s * s) for i in range(4)) + c[8]
            got = float(structure.FormFactor(el, s))
            nev += 1
            vals.append(want)
            if not (abs(got - want) <= 1e-9 * max(1.0, abs(want))):
                bad = "FormFactor(%s, %.4f) = %.12g, sum a_i exp(-b_i s^2) + c = %.12g" % (el, s, got, want)
                break
        if bad:
            v.violation(bad, desc)
            continue
        if x["Z"] % 2 == 0:
            # integer-typed arguments: the literal 0 (forward scattering, f = Z), 1, 2, numpy integers, an integer grid
            for sint in (0, 1, 2, np.int64(0), np.int32(1), np.arange(3), [0, 1, 2], np.uint8(1), np.uint16(2), np.arange(3, dtype=np.uint32),
                         np.float32(0.5), np.array([0.25, 1.5], dtype=np.float32)):
                try:
                    got = np.asarray(structure.FormFactor(el, sint if not isinstance(sint, list) else np.array(sint)), dtype=float)
                except Exception as ex:
                    v.violation("FormFactor(%s, %r) raised %r" % (el, sint, ex), desc)
                    break
                nev += 1
                sv = np.asarray(sint, dtype=float)
                want = sum(c[i] * np.exp(-c[i + 4] * sv * sv) for i in range(4)) + c[8]
                rel = 1e-9 if not (hasattr(sint, "dtype") and sint.dtype == np.float32) else 1e-5
                if got.shape != np.shape(want) or not np.all(np.isfinite(got)) or not (np.abs(got - want).max() <= rel * max(1.0, float(np.abs(want).max()))):
                    v.violation("FormFactor(%s, %r) = %s for an integer-typed argument, sum a_i exp(-b_i s^2) + c = %s" %
                                (el, sint, got.tolist(), np.asarray(want).tolist()), desc)
                    break
        # array-valued argument: same values, and the caller's array is left alone (a reused s grid must stay an s grid)
        sg_ = np.array(grid[::100], dtype=float)
        keep = sg_.copy()
        try:
            arr1 = np.asarray(structure.FormFactor(el, sg_), dtype=float)
            arr2 = np.asarray(structure.FormFactor(el, sg_), dtype=float)
            wantarr = np.array([sum(c[i] * math.exp(-c[i + 4] * s * s) for i in range(4)) + c[8] for s in keep])
            if not np.array_equal(sg_, keep):
                v.violation("FormFactor(%s, array) modifies the array of sin(theta)/lambda values it is given" % el, desc)
            elif arr1.shape != wantarr.shape or not (np.abs(arr1 - wantarr).max() <= 1e-9 * max(1.0, np.abs(wantarr).max())) or not np.array_equal(arr1, arr2):
                v.violation("FormFactor(%s, array of s) differs from the values for the individual s" % el, desc)
            # the caller refills the SAME array object (a reused buffer): the answer is for the present contents
            sg_[:] = sg_[::-1] * 0.5
            arr3 = np.asarray(structure.FormFactor(el, sg_), dtype=float)
            want3 = np.array([sum(c[i] * math.exp(-c[i + 4] * s * s) for i in range(4)) + c[8] for s in sg_])
            sg_ += 0.125
            arr4 = np.asarray(structure.FormFactor(el, sg_), dtype=float)
            want4 = np.array([sum(c[i] * math.exp(-c[i + 4] * s * s) for i in range(4)) + c[8] for s in sg_])
            if not (np.abs(arr3 - want3).max() <= 1e-9 * max(1.0, np.abs(want3).max())) or not (np.abs(arr4 - want4).max() <= 1e-9 * max(1.0, np.abs(want4).max())):
                v.violation("FormFactor(%s, array of s) answers for the earlier contents of an array that was refilled in place" % el, desc)
        except Exception as ex:
            v.violation("FormFactor(%s, array of s) raised %r" % (el, ex), desc)
        if min(vals) <= 0:
            v.violation("form factor of %s is not positive on [0, 2]: min %.4g" % (el, min(vals)), desc)
        if any(vals[i + 1] >= vals[i] for i in range(len(vals) - 1)):
            k = [i for i in range(len(vals) - 1) if vals[i + 1] >= vals[i]][0]
            v.violation("form factor of %s does not decrease monotonically on [0, 2] (first rise near s = %.3f)" % (el, grid[k]), desc)
    # FormFactor evaluates the table as it is now: an entry added at run time (deuterium = hydrogen's numbers under a new key) and an
    # entry whose coefficient list is replaced by a new list object are looked up like any other
    from xfab import atomlib
    keep_h = atomlib.formfactor["H"]
    try:
        atomlib.formfactor["D"] = list(keep_h)
        got_d = [float(structure.FormFactor("D", s_)) for s_ in (0.0, 0.3, 1.1)]
        want_d = [float(structure.FormFactor("H", s_)) for s_ in (0.0, 0.3, 1.1)]
        newc = [1.1 * q_ if j_ < 4 else q_ for j_, q_ in enumerate(keep_h)]
        atomlib.formfactor["H"] = newc
        got_h = [float(structure.FormFactor("H", s_)) for s_ in (0.0, 0.3, 1.1)]
        want_h = [sum(newc[i] * math.exp(-newc[i + 4] * s_ * s_) for i in range(4)) + newc[8] for s_ in (0.0, 0.3, 1.1)]
        if not all(abs(a_ - b_) <= 1e-12 for a_, b_ in zip(got_d, want_d)) or not all(abs(a_ - b_) <= 1e-9 for a_, b_ in zip(got_h, want_h)):
            v.violation("FormFactor does not follow the table: after adding the key 'D' and replacing the coefficient list of 'H' it returns %s / %s, the "
                        "table gives %s / %s" % (got_d, got_h, want_d, want_h), {"element": "H/D"})
    except Exception as ex_:
        v.violation("FormFactor raised %r for an entry added to / replaced in the form-factor table at run time" % (ex_,), {"element": "H/D"})
    finally:
        atomlib.formfactor["H"] = keep_h
        atomlib.formfactor.pop("D", None)
    cov = {"states": r.distinct, "transitions": r.generated, "traces_validated_against_impl": len(r.records),
           "entries": len(r.records), "evaluations_on_grid": nev, "exhaustive": True,
           "settled_analytically_monotone": sum(1 for x in r.records if x["monotone"]),
           "settled_analytically_positive": sum(1 for x in r.records if x["positive"]),
           "rule": "one case per table entry (94); exact integer decisions by TLC; grid evaluation of FormFactor against the exported record"}
    v.max_replays = 100
    return v.finish("model_checking", cov, ASSUME)


def replay(path, seed):
    return run("quick", seed)
