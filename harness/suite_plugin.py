"""pytest plugin (kept in /verif, never in /repo): while the repository's own suite runs, record one event per
assignment to xfab.CHECKS.activated and per outermost call of a guarded API, in the vocabulary of Checks.tla.
The events are validated afterwards by TLC against Trace_Checks.tla: the suite exercises these paths, its
assertions are just too weak.  Enabled by the environment variable XFAB_SUITE_TRACE=<output file>."""
import json
import os
import traceback

_EVENTS = []
_DEPTH = [0]


def _from_checks(exc):
    if not isinstance(exc, ValueError):
        return False
    return any(fr.filename.replace("\\", "/").endswith("xfab/checks.py") for fr in traceback.extract_tb(exc.__traceback__))


def _rot_class(U):
    import numpy as np
    try:
        U = np.asarray(U, dtype=float)
        if U.shape != (3, 3) or not np.all(np.isfinite(U)):
            return "nonorth"
        dev = max(float(np.abs(U.T.dot(U) - np.eye(3)).max()), abs(float(np.linalg.det(U)) - 1.0))
    except Exception:
        return None
    if dev < 2e-7:
        return "valid64"
    if dev > 1e-3:
        return "nonorth"
    return None          # in the band the property does not speak about


def _classify(f, args):
    import math
    import numpy as np
    if f in ("u_to_euler", "u_to_rod", "u_to_ubi"):
        return _rot_class(args[0])
    if f == "Umis":
        a, b = _rot_class(args[0]), _rot_class(args[1])
        if a is None or b is None:
            return None
        return "valid64" if a == b == "valid64" else ("nonorth" if a != "valid64" else "nonorth2")
    if f == "euler_to_u":
        try:
            v = [float(x) for x in args[:3]]
        except Exception:
            return None
        if all(0 <= x <= 2 * math.pi for x in v):
            return "valid"
        if any(x < -1e-3 for x in v):
            return "negative"
        if any(x > 2 * math.pi + 1e-3 for x in v):
            return "above2pi"
        return None
    if f in ("ubi_to_u", "ubi_to_u_and_eps"):
        try:
            ubi = np.asarray(args[0], dtype=float)
            d = float(np.linalg.det(ubi))
        except Exception:
            return None
        if f == "ubi_to_u_and_eps":
            # its guard is the rotation check on the derived U: classify only clearly right/left handed lattices
            return "validubi" if d > 1e-9 else ("lefthanded" if d < -1e-9 else None)
        return "validubi" if d > 1e-9 else ("lefthanded" if d < -1e-9 else None)
    if f == "ub_to_u_b":
        try:
            d = float(np.linalg.det(np.asarray(args[0], dtype=float)))
        except Exception:
            return None
        return "validub" if d > 1e-9 else ("negdet" if d < -1e-9 else None)
    return None


VALID = {"valid64", "valid", "validubi", "validub"}


def _wrap(modname, mod, f):
    import xfab
    orig = getattr(mod, f)

    def wrapper(*a, **k):
        _DEPTH[0] += 1
        try:
            res = orig(*a, **k)
            exc = None
            return res
        except BaseException as ex:
            exc = ex
            raise
        finally:
            _DEPTH[0] -= 1
            if _DEPTH[0] == 0:
                c = _classify(f, a)
                if c is not None:
                    if exc is None:
                        out = "returns" if c in VALID else "unchecked"
                    elif _from_checks(exc):
                        out = "CheckError"
                    else:
                        out = "unchecked" if c not in VALID else "other:" + repr(exc)[:80]
                    _EVENTS.append({"ev": "call", "m": modname, "f": f, "c": c, "out": out, "sw": bool(xfab.CHECKS.activated)})
    wrapper.__wrapped__ = orig
    setattr(mod, f, wrapper)


def pytest_configure(config):
    if not os.environ.get("XFAB_SUITE_TRACE"):
        return
    import xfab
    from xfab import tools, laue, symmetry, checks
    cls = checks._checkState
    prop = cls.__dict__["activated"]

    def setter(self, value):
        cl = ("True" if value is True else "False" if value is False else "other_truthy" if value else "other_falsy")
        try:
            prop.fset(self, value)
            out = "ok"
        except ValueError:
            out = "ValueError"
            raise
        finally:
            _EVENTS.append({"ev": "assign", "v": cl, "out": out if "out" in dir() else "ValueError", "sw": bool(self._run_checks and __debug__)})
    cls.activated = property(prop.fget, setter)
    _EVENTS.append({"ev": "init", "sw": bool(xfab.CHECKS.activated)})
    for f in ("u_to_euler", "u_to_rod", "u_to_ubi", "euler_to_u", "ubi_to_u", "ubi_to_u_and_eps", "ub_to_u_b"):
        _wrap("tools", tools, f)
        _wrap("laue", laue, f)
    _wrap("symmetry", symmetry, "Umis")
    if os.environ.get("XFAB_SUITE_LOOKUPS"):
        _wrap_lookups()


def _wrap_lookups():
    """record every space-group lookup (sg.sg construction) and every multiplicity call made while the suite runs"""
    from xfab import sg, structure
    orig_init = sg.sg.__init__

    def init(self, sgno=None, sgname=None, cell_choice="standard"):
        orig_init(self, sgno=sgno, sgname=sgname, cell_choice=cell_choice)
        _EVENTS.append({"ev": "lookup", "sgno": None if sgno is None else int(sgno), "sgname": None if sgname is None else str(sgname),
                        "choice0": str(cell_choice), "no": int(self.no), "nsymop": int(self.nsymop), "name": str(self.name),
                        "cell_choice": str(self.cell_choice)})
    sg.sg.__init__ = init
    orig_mult = structure.multiplicity

    def multiplicity(position, sgname=None, sgno=None, cell_choice="standard"):
        r = orig_mult(position, sgname=sgname, sgno=sgno, cell_choice=cell_choice)
        try:
            _EVENTS.append({"ev": "multiplicity", "pos": [float(x) for x in position], "sgname": None if sgname is None else str(sgname),
                            "sgno": None if sgno is None else int(sgno), "choice0": str(cell_choice), "result": int(r)})
        except Exception:
            pass
        return r
    structure.multiplicity = multiplicity


def pytest_sessionfinish(session, exitstatus):
    p = os.environ.get("XFAB_SUITE_TRACE")
    if p:
        with open(p, "w") as fh:
            json.dump(_EVENTS, fh)
