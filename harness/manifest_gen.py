"""Regenerates /verif/MANIFEST.json from the table below (single source of truth)."""
import json
import os

VERIF = os.path.dirname(os.path.dirname(os.path.abspath(__file__)))

CHECKS = {}
NOT_YET = {}


def chk(pid, category, text, note, technique, design):
    CHECKS[pid] = {
        "property_id": pid,
        "quick_cmd": "./check %s --tier quick" % pid,
        "thorough_cmd": "./check %s --tier thorough" % pid,
        "evidence_file": "/verif/evidence/%s.json" % pid,
        "replay_cmd_template": "./check %s --replay {path}" % pid,
        "engine": "tlc+replay",
        "level_claimed": {"category": category, "text": text, "design_ref": design},
        "level_note": note,
        "technique": technique,
    }


chk("C04", "model_checking",
    "TLC exhaustively checks 15 named group/metadata laws on every one of the 237 exported tables and runs the "
    "lookup automaton of sg.__init__ for every number/setting pair and every dictionary key in 6 spellings; every "
    "lookup behaviour is replayed into the real sg.sg and compared with the table the model resolves. The space is "
    "finite and enumerated completely, which is the right level for a property about 13k lines of tables. One of the laws pins the "
    "orientation of the point group: rotations with the inversion added must equal the closure of the generators of the Laue group the "
    "label names, in the axes of the setting; two more use a reference table of the 56 symbols with a screw axis N_k along c (sense of the "
    "enantiomorphic pairs) and demand that tables of different numbers are different sets of operations. Every third lookup overwrites "
    "the arrays it received and repeats the lookup (results must not share storage).",
    "Trusted: TLC, the exporter's conversion of translations to 24ths (rejects anything off a 24th by >1e-4), "
    "numpy equality. Monoclinic metric basis assumes unique axis b (the only setting tabulated).",
    "TLA+ spec SpaceGroup.tla model-checked by TLC on exported tables + replay of every lookup behaviour into sg.sg",
    "DESIGN.md section 7 C04")

chk("C15", "model_checking",
    "TLC computes the exact orbit size of rational positions under every exported table (all 237 settings; quick: 60 seeded "
    "grid points + 2 x 28 special-position family members per table - generic parameters 331/2400.. and the decimal 0.123455, 0.271, "
    "0.062505 that sits on rounding ties of a 1e-5 grid -, thorough: the full 12^3 grid + families) and checks "
    "orbit-stabiliser, divisibility, representative-independence and lattice-shift invariance in the model; every case is "
    "replayed into the real multiplicity() with float coordinates shifted by lattice vectors, by number+setting and by name, as list / "
    "array / numpy-integer group number, lattice points also as Python ints, names in four spellings (as tabulated, lower, upper, blanks); "
    "the multiplicity calls the repository's own tests make "
    "are recorded and validated against the model as well.",
    "Trusted: TLC, exporter (24ths), the group laws of the tables (C04's subject; a table that is not a group is reported here too).",
    "TLA+ spec Multiplicity.tla (exact orbits over exported tables) model-checked by TLC + replay of every case into multiplicity()",
    "DESIGN.md section 7 C15")

chk("C05", "model_checking",
    "TLC computes from the group's own operators the exact allowed set for (setting, conforming integer reciprocal metric, shell) "
    "instances covering all 237 settings, checks that the 14 transcribed segment tables are sound asymmetric units and that the "
    "26-slot condition table agrees with the operators on everything the traversal can visit, and runs the traversal machine as "
    "coded. The real genhkl_all (by number and by name, tools and laue, different numpy seeds) is compared with the allowed set on "
    "the float image of every instance; R-centred hexagonal/rhombohedral pairs on the same lattice are compared through the obverse "
    "matrix. The early-exit defect is recognised exactly through the traversal model and reported as a known finding.",
    "Trusted: TLC, exporter, float concretisation of integer metrics (bounds at half-integers). Coverage is a seeded sample of metrics "
    "per setting, not all cells.",
    "TLA+ spec GenHkl.tla + SysAbs.tla + SgOps.tla model-checked by TLC; replay of every instance into genhkl_all; three-way verdict (requirement / traversal model / code)",
    "DESIGN.md section 7 C05")

chk("C06", "model_checking",
    "Own TLC run of GenHkl.tla: the requirement 'exactly one member of every Laue family of the allowed set, expansion = allowed set' "
    "is checked in the model for the unit list; the real genhkl_unique (output_stl True/False) and genhkl_all (output_stl True) are "
    "replayed on every instance: integer rows, one representative per family, nothing else, genhkl_all = union of the families, "
    "rows sorted by exact Q*, fourth column = sqrt(c Q*/4), shell bounds exclusive/inclusive (every table has a full and a deep shell; the "
    "flag comes as Python bool, numpy bool, 0/1; a related request is issued first in the same process); pseudo-tetragonal cells detuned by 4e-8 have "
    "their order checked with exact fractions. Thorough tier: the segment tables are model-checked to be sound asymmetric units on EVERY "
    "conforming integer metric of a box (17.6k instances, 2.2M states), which also counts where the early exit loses families.",
    "Trusted: as C05. Known finding: early exit (same site).",
    "TLA+ spec GenHkl.tla model-checked by TLC; replay of every instance into genhkl_unique/genhkl_all; exact integer Q* as ordering and sintl oracle",
    "DESIGN.md section 7 C06")

chk("C11", "model_checking",
    "TLC enumerates all 8 valid orientations x all shapes 1..8 x 1..8 x both image functions, with numpy's primitives as index maps and "
    "the code's compositions executed one primitive per action; invariants: trans_orientation stores pixel (x,y) at the index the "
    "coordinate requirement prescribes, the map is a bijection, inverse mode undoes forward mode, the coordinate functions are mutual "
    "inverses (quarter-pixel resolution), validation accepts exactly the signed permutation matrices (all 81). Every terminal state, "
    "every pixel, the 73 x 4 rejections, large non-square shapes (coordinates from TLC), exact circle points for eta/radius and whole "
    "pixels (integer-typed, four containers) against a centre in quarter pixels are replayed into the real functions; images come as "
    "small ints, int64 beyond 2^40, uint32 to 2^32-1, float64 with 53 bits, uint16 and bool.",
    "Trusted: TLC; numpy index semantics as written in Flips.tla (the replay compares them with numpy). Size convention as stated in the property.",
    "TLA+ specs Flips.tla / FlipsBig.tla / EtaRad.tla model-checked exhaustively by TLC + replay of every terminal state into xfab.detector",
    "DESIGN.md section 7 C11")

chk("C20", "model_checking",
    "Checks.tla models the switch and every guard site (8 guarded APIs and 2 functions composed of them x input classes, "
    "tools/laue/symmetry). TLC enumerates every behaviour with 2 (quick) / 3 (thorough) API events over a 76-event alphabet plus "
    "simulated behaviours of 14 events and checks SwitchIsLastValid, NeverRejectsValid, OffMeansOff, OnRejectsInvalid and the action "
    "properties InvalidAssignKeeps and CallsKeepSwitch; every behaviour is "
    "replayed into the real package with outcome class, switch state and (for valid inputs) the returned value compared after each "
    "event. In the other direction hypothesis histories of up to 30 events are recorded from the real package and validated by TLC "
    "against Trace_Checks.tla; two corrupted canary traces must be rejected on every run. Also: assignments to a second instance of the "
    "switch class, byte-identical inputs reused within a behaviour, the events of the repository's own test suite (recorded by a pytest "
    "plugin kept in /verif) validated as one more trace, the model with DebugOn = FALSE replayed under `python -O`, and (thorough) an "
    "Apalache proof that switch = last valid assignment is inductive, i.e. holds for histories of any length.",
    "Trusted: TLC; classification of an exception as the check's own (ValueError raised from xfab/checks.py); concretisation of input classes; python without -O.",
    "TLA+ spec Checks.tla model-checked by TLC; behaviours replayed into xfab; implementation traces validated against Trace_Checks.tla",
    "DESIGN.md section 7 C20")

chk("C19", "model_checking",
    "Parameters.tla is a dictionary-level model of the parameters object (tokens for int/float/text kinds, dumbtypecheck coercion, "
    "vary lists and step sizes, the companion object, the sorted text file, load into the same or a fresh object or through read_par_file, "
    "the keyword constructor, par objects transported as string lists, all getters). TLC enumerates every behaviour "
    "with 2 (quick) / 3 (thorough) API events over a small alphabet and simulates behaviours of 25 events over a rich alphabet, "
    "checking RoundTrip, VariedFollows, StepsFollow, StepsizesDomain, TypeOK and the action property VarylistLegal; every behaviour is replayed into a real object "
    "and the full projected state compared after every call. hypothesis histories (<= 30 events; random doubles compared bit-exactly, "
    "ints to 2^62, numeric-looking/padded/blank text) recorded from the real object are validated by TLC against "
    "Trace_Parameters.tla; an intact canary trace must be accepted and two corrupted ones rejected on every run. The exhaustive alphabet "
    "contains an integer no double represents (2^62+1), a name that is not a Python identifier (2th) and the forced tail save -> load into a "
    "fresh object; every other float is handed over as numpy.float64.",
    "Trusted: TLC; the token<->value tables of the harness; Python facts (float repr round trip, int()/float() grammar). Text values come "
    "from templates of known kind; underscores in numeric text are not generated.",
    "TLA+ spec Parameters.tla model-checked/simulated by TLC; behaviours replayed step by step; implementation traces validated against Trace_Parameters.tla",
    "DESIGN.md section 7 C19")

chk("C12", "model_checking",
    "TLC checks 11 named laws exhaustively (all pairs of operators) on the permutation tables exported from the tree for the 7 "
    "crystal systems: group axioms and orders 1,2,4,8,6,12,24, the paired rotations (integers, or exact Z[sqrt3]/6 for "
    "trigonal/hexagonal) are proper rotations forming a group, and rot.B.perm = B on a basis of the conforming B matrices. It emits the "
    "exact rotations and, for seeded Cayley rotation pairs, the exact cosine of every misorientation. rotations(), ROTATIONS and "
    "Umis are compared with these values (pairs include misorientations of exactly 0 and exactly 180 degrees carrying rounding noise); the "
    "four Umis invariances and Umis(U,U) containing 0 are run as metamorphic calls, every angle must be finite; pairs 1e-3..1e-6 rad apart are "
    "compared with angles taken from the exact operator tables through the antisymmetric part; axis-aligned rotations are also passed integer-typed.",
    "Trusted: TLC; float sqrt(3) in converting exact values; monoclinic basis for unique axis b.",
    "TLA+ spec Symmetry.tla (exact integer / Z[sqrt3] algebra) model-checked by TLC on exported tables + replay into rotations()/Umis",
    "DESIGN.md section 7 C12")

chk("C01", "model_checking",
    "Cell.tla carries a unit cell as an exact integer metric tensor through the graph of representations (cell, A, B, A^-1, reciprocal "
    "cell, A of the reciprocal cell). TLC enumerates every positive-definite metric of the configured box that satisfies the property's "
    "Gram bound (strongly oblique ones included) x every path of depth 4, checks the adjugate identities (G adj G = det G I, "
    "adj adj G = det G G, positivity of Q*) and emits exact det G, adj G, Q*(h). Every path is stepped through the real functions of "
    "xfab.tools and xfab.laue for three scale factors; after each call the float result is projected back to the metric "
    "(A'A, B'B with the module's 2pi weight, V^2, sintl^2, cell parameters) and compared with the exact rational. Added after seeded "
    "changes: a nearly orthogonal family (metric entries of 1e5, evaluated with the same formulas in unbounded integers; the identities "
    "are proved for all integers by Apalache in the thorough tier), cells typed as integers, consecutive nearly equal scales, extreme "
    "scales (edges of 0.2 A and 400 A), list/array containers, and a call guard (argument snapshot, second call, earlier results re-verified).",
    "Trusted: TLC integer algebra (overflow aborts), sqrt/acos used to build the float cell, tolerance 1e-9 relative / 1e-7 deg. The continuum is "
    "covered on a dense rational lattice, not proved for all reals.",
    "TLA+ spec Cell.tla (exact metric algebra as oracle) model-checked by TLC + replay of every behaviour into both modules with projection to the metric",
    "DESIGN.md section 7 C01")

chk("C02", "model_checking",
    "Orient.tla carries (integer metric G, Cayley rotation of an integer Rodrigues vector) through the converters u_to_ubi, ubi_to_u, "
    "ubi_to_cell, ubi_to_u_b, ub_to_u_b, ubi_to_rod, u_to_rod, rod_to_u as a transition system; TLC enumerates all paths up to depth 4 for "
    "the 24 axis-aligned rotations (incl. 180 degree ones) and seeded rotations x oblique metrics, checks N'N = D^2 I, det N = D^3 and the "
    "metric identities, and emits the exact values. Each path is stepped through tools and laue with every intermediate compared: "
    "UBI.UBI' = uG (rows are lattice vectors), UBI.(U.B.h) = (2pi)^w h, returned U = N'/D, B'B = adj G/(u det G), cell, Rodrigues vector. "
    "ub_to_u_b also runs on general integer matrices with det > 0 against the integer oracle B'B = M'M, U'U = I, det U = +1, U.B = M, "
    "including ill-conditioned ones given as exact factors P.diag(d).Q (condition number 1e3..1e6 by an exact bound). Every behaviour is "
    "replayed at consecutive nearly equal and at extreme scales, through the call guard (arguments untouched, second call equal, earlier "
    "results intact, a result overwritten by the caller does not change the next one). General rotations are also paired with cells of "
    "special form (cubic, tetragonal, orthorhombic, each unique-axis monoclinic, hexagonal, rhombohedral).",
    "Trusted: TLC, float concretisation, tolerance 1e-9; uniqueness of the QR split by Cholesky (the defining conditions are what is checked).",
    "TLA+ spec Orient.tla (Cayley rationals x integer metrics) model-checked by TLC + step-by-step replay of every path into both modules",
    "DESIGN.md section 7 C02")

chk("C03", "model_checking",
    "Rotation.tla defines each constructor (Bunge Euler, omega, omega with chi/wedge, quaternion omega, detector tilt, Rodrigues) as the "
    "documented composition of elementary rotations over Pythagorean angles, i.e. exact integer matrices over a denominator; TLC checks "
    "N'N = den^2 I, det N = den^3 and the gimbal structure and emits the exact matrix, which the real builders of both modules must "
    "reproduce to 1e-12. u_to_euler and u_to_rod are run on every lattice matrix (PHI exactly 0/pi, axis-aligned, |r| up to 1000) and "
    "must return angles in range that rebuild the input to 1e-6; Rodrigues vectors up to |r| = 19 000 (179.994 degrees) must come back with "
    "sign and size, and vectors up to 6e7 (2e-6 degrees short of the half turn, formed with unbounded integers) must rebuild the matrix to "
    "1e-6; builders are called with shifted and with unshifted angles (exact zero tilts included), with integer-typed angles; u_to_euler is "
    "also run on products of rotations (R'.R, R'.R.Rz, R'.R.diag(1,-1,-1): entries 1 +- 1 ulp, rounding noise that is not sin PHI), which "
    "exposed and now guards two repaired defects. Gimbal.tla enumerates the full product of magnitude classes for the "
    "near-gimbal band (PHI = 0/pi +- 1e-1..1e-13, phi near 0, pi, 2pi); there the property itself is the oracle on a matrix the "
    "harness builds from its own Rz.Rx.Rz product.",
    "Trusted: TLC integer algebra; atan2/cos/sin of the harness to produce float arguments; the near-gimbal band is covered by classes, not by exact rationals.",
    "TLA+ specs Rotation.tla (exact rational builders) and Gimbal.tla (magnitude-class product) model-checked by TLC + replay into both modules",
    "DESIGN.md section 7 C03")

chk("C13", "model_checking",
    "Strain.tla works on integer upper-triangular pairs (B0, B) with the exact strain sym(B0.inv B) - I as integer numerators over "
    "2 det B (filtered to |eps| <= 0.1 in the model) and Cayley rotations; TLC checks the identities that make epsilon_to_b's "
    "back-substitution the inverse of b_to_epsilon and enumerates paths through b_to_epsilon/epsilon_to_b, the _old pair and "
    "UBI -> ubi_to_u_and_eps. Every path is replayed in both modules (1e-9), zero strain must give form_b_mat(cell). The deviation of "
    "tools.ubi_to_u_and_eps (missing 2pi) is recognised exactly by its deviation model and reported as a known finding.",
    "Trusted: TLC; float concretisation; Cholesky uniqueness links B0 to the cell (also checked numerically as the zero-strain case).",
    "TLA+ spec Strain.tla (exact rational strain) model-checked by TLC + path replay into both modules; three-way verdict with a named deviation model",
    "DESIGN.md section 7 C13")

chk("C18", "model_checking",
    "ReduceCell.tla runs the sort-then-pick machine of reduce_cell on integer direct metrics (small reduced metrics and their images "
    "under random unimodular changes of basis) with the order of equal-length vectors left nondeterministic, so TLC produces every "
    "outcome the code may legitimately return, with exact new metric V'GV and det V, and checks termination. The real reduce_cell "
    "(both modules) must return the cell of one allowed outcome. The rows-versus-columns defect is recognised exactly by its deviation "
    "model (cell of R'R for an allowed outcome) and reported as a known finding; any other result is a violation. Instances include cells that "
    "satisfy the pairwise Buerger conditions but have a body diagonal shorter than c.",
    "Trusted: TLC; numpy Cholesky for the deviation model only; instances whose search range is too small (non-unimodular outcome) are outside the quantifier and counted as skipped.",
    "TLA+ spec ReduceCell.tla (nondeterministic tie order, exact integer lengths) model-checked by TLC + replay; three-way verdict with a named deviation model",
    "DESIGN.md section 7 C18")

chk("C09", "model_checking",
    "Omega.tla constructs, from Pythagorean theta, eta, omega, chi and wedge, the exact goniometer matrix of each of the four solvers "
    "(as the module composes it), decides tangency exactly (x-component of n x g_lab) and the never-diffracting family by an exact "
    "inequality; TLC checks |g_lab|^2 = sin^2(theta) and orthonormality where they fit 32 bits. g_w = Omega' g_lab must then diffract "
    "at the constructed (omega, eta): every solver in both modules must return exactly two solutions away from tangency, the "
    "constructed one among them, every returned pair must satisfy the three-component diffraction condition under the module's own "
    "matrix, omega in (-pi, pi]; unreachable g-vectors must give no solution. A near-axis family (2theta 0.57..11 degrees, g within "
    "0.005 rad of the rotation axis, absolute discriminant 1e-9..1e-7) is part of every run. tth/tth2 are compared with the exact Q* of Cell.tla.",
    "Trusted: TLC; float products of the exact rationals; tolerance 1e-9 (1e-6 at exactly tangent constructions).",
    "TLA+ spec Omega.tla (constructive exact diffraction geometry) model-checked by TLC + replay into the four solvers of both modules",
    "DESIGN.md section 7 C09")

chk("C10", "model_checking",
    "Detector.tla builds the tilt matrix Rx Ry Rz and the unit ray direction exactly from Pythagorean angles (tilts about all three axes "
    "jointly, |tilt| <= 0.3 rad; 2theta from 0.57 to 53 degrees; eta in all quadrants) and checks in the model that the tilt is a proper "
    "rotation, the ray a unit vector pointing towards the detector. The construction is pixel-first: the harness chooses distance, pixel "
    "sizes, beam centre, a rational pixel and ray parameter and forms detector point and grain position with exact fractions, so the "
    "expected pixel is an input of the construction, not a computed value. det_coor2 and det_coor must return that pixel and agree, "
    "detector_to_lab must return the detector point and lie on the ray, det_v the direction, detect_tilt (both modules) the matrix. A second, "
    "position-first family passes the grain position as integers (Python ints / numpy integers, (0,0,0) above all) with a non-integer distance; "
    "the expected pixel is then an exact fraction computed from the rational R and v.",
    "Trusted: TLC; Python fractions for the exact construction; tolerance 1e-9 relative.",
    "TLA+ spec Detector.tla (exact tilt and ray) model-checked by TLC + pixel-first exact construction replayed into xfab.detector",
    "DESIGN.md section 7 C10")

chk("C07", "model_checking",
    "StructFac.tla accumulates the structure-factor sum one symmetry operation per step on exact rational positions (phase indices "
    "modulo N) for all 237 settings; TLC checks orbit-stabiliser, that composing with an operation permutes the operations (the closure "
    "fact F(hR) = F(h) e^{-2 pi i h.t} rests on), exact cancellation of the phases of extinct reflections and Friedel symmetry, and emits "
    "for every operation the rotated index hR_k, the exact shift h.t_k in 24ths and the extinction flag. The real StructureFactor is then "
    "tested metamorphically with atoms at generic positions (Uiso and generic positive-definite Uani, fractional occupancies) in "
    "conforming cells: F(hR_k) against F(h) times the exact phase factor, F = 0 on extinct reflections, F(-h) = conj F(h).",
    "Trusted: TLC; exported tables (C04); tolerance scaled by scattering power and by the 6-digit thirds of the tables. The identity is "
    "checked on sampled reflections/operations (all operations in the thorough tier).",
    "TLA+ spec StructFac.tla (exact phases, rotated indices and shifts) model-checked by TLC + metamorphic replay into StructureFactor",
    "DESIGN.md section 7 C07")

chk("C08", "model_checking",
    "Own TLC run of StructFac.tla: for (setting, exact position p/N on general and special positions, hkl incl. 000) the accumulation "
    "machine yields the orbit with the exact phase index of every orbit point, its pre-image count (orbit-stabiliser invariant) and an "
    "operation reaching it. From these the harness assembles the explicit P1 sum occ (f(s)+f'+i f'') DW exp(2 pi i phi/N) with an "
    "independent evaluation of the exported form-factor record and s^2 = c Q*(h)/4 on oblique conforming cells, and compares the complex "
    "StructureFactor with it (Uiso / generic Uani on general positions / isotropic-equivalent Uani / no ADP; dispersion present, partly None, "
    "absent; occupancies 0, 1, fractional and above 1). Lattice-shift invariance, linearity in occupancy (halved and tripled), Uiso = equivalent "
    "Uani and F(000) at U = 0 are run as metamorphic calls.",
    "Trusted: TLC; exported tables; the Debye-Waller and form-factor formulas of the oracle are written from the property text, not from the code.",
    "TLA+ spec StructFac.tla (exact orbit and phases) model-checked by TLC + explicit-sum oracle compared with StructureFactor",
    "DESIGN.md section 7 C08")

chk("C16", "model_checking",
    "FormFactor.tla holds the periodic table as its own constant and decides exactly, on the coefficient records exported from the tree "
    "(integers x 10^6), for each of the 94 entries: |sum a_i + c - Z| <= 0.1, all b_i > 0, one entry per element, and the sign patterns "
    "that settle monotonic decrease (all a_i b_i > 0) and positivity analytically. The exponentials TLC cannot evaluate are covered by "
    "replay: FormFactor(el, s) against an independent evaluation of the exported record on a grid of s in [0, 2], with positivity and "
    "monotonic decrease checked on that grid for every entry; array arguments, also the same array object refilled in place between calls; "
    "s typed as Python int, signed and unsigned numpy integers, float32.",
    "Trusted: TLC; 6-decimal export; grid evaluation for the entries whose sign pattern does not settle the claim analytically (B, N, Cl have c < 0: positivity is a grid fact).",
    "TLA+ spec FormFactor.tla (exact integer decisions per entry) model-checked by TLC + grid replay of FormFactor",
    "DESIGN.md section 7 C16")

chk("C17", "exploration",
    "CifModel.tla states the ingestion as a table of field-derivation rules (source item, conversion, default per field) and TLC "
    "enumerates the full product of file configurations (1152 CIF + 16 PDB) checking that every field is derived exactly once, B values "
    "are always and U values never converted, and that the multiplicity is computed exactly when no key is present. For each "
    "configuration (quick: 380 CIF + 32 PDB) a real file with seeded content (random group of the 230, 1-12 atoms, esds, blanks in the "
    "symbol, extra global block, '?' dispersion...) is written, read with build_atomlist and compared field by field with the plan applied "
    "to the numbers as printed; computed site multiplicities come from Multiplicity.tla (exact orbit sizes).",
    "TLC supplies the case space and the rules, not text-level fidelity: PyCifRW, float() and the generator's CIF subset are trusted. This is a "
    "specification-driven conformance exploration, not a proof over all files.",
    "TLA+ spec CifModel.tla (rule table, configuration product enumerated by TLC) + Multiplicity.tla; generated files replayed into build_atomlist",
    "DESIGN.md section 7 C17")

chk("C14", "exploration",
    "Conventions.tla declares the 2pi-weight of every representation and the weight signature of the 41 shared functions (the refinement "
    "mapping tools <-> laue) and runs a weight machine over the body of every function that touches 2*pi (a unit analysis: product adds, "
    "inverse negates, *2pi/ /2pi shift, calls demand the callee's weights); it flags exactly tools.ubi_to_u_and_eps. The harness then calls "
    "every shared function in both modules on inputs from the exact lattices (own TLC emissions of Cell, Orient, GenHkl, Omega, Strain; "
    "Pythagorean angles), maps arguments and results through the weights and compares at 1e-12 (integer rows exactly, same numpy seed for "
    "the generators; the older generator genhkl for every crystal system). Coverage is counted per function and a function without a compared call fails the check.",
    "Differential conformance driven by the specification, not a proof; TLC contributes the mapping, the unit analysis and the inputs. The "
    "known finding of C13 (tools.ubi_to_u_and_eps) is the one listed deviation.",
    "TLA+ spec Conventions.tla (weight signatures + unit-analysis machine) model-checked by TLC; differential execution of all 41 shared functions",
    "DESIGN.md section 7 C14")

ALL = ["C%02d" % i for i in range(1, 21)]


def main():
    man = {
        "version": 1,
        "setup_cmd": "./setup.sh",
        "hooks": {
            "guard": "XFAB_VERIF",
            "enable": "no source hooks are needed: every observation point is a public call's return value; "
                      "checks import xfab from /repo's working tree (PYTHONPATH=/repo)",
            "baseline_off_cmd": "cd /repo && /venv/bin/python -m pytest -ra -q -p no:cacheprovider --timeout=900 "
                                "--continue-on-collection-errors",
            "source_commits": [],
            "add_only": True,
        },
        "engines": [
            {"name": "tlc+replay", "path": "/verif/check",
             "serves_properties": sorted(CHECKS),
             "kind_free_text": "TLA+ specifications under /verif/spec model-checked by TLC; cases and expected "
                               "abstract results emitted by TLC are replayed into the real xfab functions "
                               "(harness/*.py); stateful parts are also validated trace-against-spec"},
        ],
        "checks": [CHECKS[k] for k in sorted(CHECKS)],
        "not_applicable": [{"property_id": p, "reason": NOT_YET.get(p, "check not built yet at this commit (build in progress, see DESIGN.md section 11)")}
                           for p in ALL if p not in CHECKS],
        "notes": "Every check also runs an import-order / first-use probe of its property's functions in five fresh interpreters "
                 "(harness/isolated.py) and starts with the package in use (common.package_in_use); magnitude comparisons are NaN-proof. "
                 "All checks: ./check <ID> --tier quick|thorough; VERIF_SEED honoured; evidence rewritten on every run; "
                 "known findings in /verif/known_findings.json.",
    }
    with open(os.path.join(VERIF, "MANIFEST.json"), "w") as f:
        json.dump(man, f, indent=1)
        f.write("\n")


if __name__ == "__main__":
    main()
