"""Shared code for the structure-factor checks C07 and C08."""
import cmath
import math

import common
import genhkl_lib as gl

ELEMENTS = ["C", "O", "N", "SI", "FE", "S", "CA", "TI"]


def formfactor_table():
    common.use_repo()
    from xfab import atomlib
    return {k: [float(x) for x in v] for k, v in atomlib.formfactor.items()}


def f0(coef, s2):
    """independent evaluation of sum a_i exp(-b_i s^2) + c from the exported coefficient record"""
    return sum(coef[i] * math.exp(-coef[i + 4] * s2) for i in range(4)) + coef[8]


def qform(met, h):
    return (met[0] * h[0] * h[0] + met[1] * h[1] * h[1] + met[2] * h[2] * h[2]
            + 2 * met[3] * h[1] * h[2] + 2 * met[4] * h[0] * h[2] + 2 * met[5] * h[0] * h[1])


def random_uani(rng, met, c):
    """positive-definite U (CIF order U11,U22,U33,U23,U13,U12), generic (not site symmetric)"""
    import numpy as np
    M = np.array([[rng.uniform(-1, 1) for _ in range(3)] for _ in range(3)])
    U = 0.004 * (M.dot(M.T) + 0.3 * np.eye(3))
    return [U[0, 0], U[1, 1], U[2, 2], U[1, 2], U[0, 2], U[0, 1]]


def iso_uani(uiso, met):
    """the anisotropic tensor that represents isotropic motion uiso in a cell with reciprocal metric ~ met:
    U_ij = uiso * g*_ij / (a*_i a*_j)"""
    a = [math.sqrt(met[0]), math.sqrt(met[1]), math.sqrt(met[2])]
    return [uiso, uiso, uiso, uiso * met[3] / (a[1] * a[2]), uiso * met[4] / (a[0] * a[2]), uiso * met[5] / (a[0] * a[1])]


def beta_from_u(U6, met, c):
    """beta_ij = 2 pi^2 a*_i a*_j U_ij with a*_i from the exact reciprocal metric c*met"""
    import numpy as np
    a = [math.sqrt(c * met[0]), math.sqrt(c * met[1]), math.sqrt(c * met[2])]
    U = np.array([[U6[0], U6[5], U6[4]], [U6[5], U6[1], U6[3]], [U6[4], U6[3], U6[2]]])
    b = np.zeros((3, 3))
    for i in range(3):
        for j in range(3):
            b[i, j] = 2 * math.pi ** 2 * a[i] * a[j] * U[i, j]
    return b


def make_atom(label, el, pos, adp_type, adp, occ, mult):
    from xfab import structure
    return structure.atom_entry(label=label, atomtype=el, pos=pos, adp_type=adp_type, adp=adp, occ=occ, symmulti=mult)


def call_sf(h, cell, sgname, atoms, disper=None):
    """StructureFactor on hkl given as list / tuple / integer array / float array (chosen from the indices); called a second time
    on the SAME atom objects every few calls: the result must not depend on an earlier call (atoms must not be modified)"""
    from xfab import structure
    import numpy as np
    k = (abs(h[0]) + 2 * abs(h[1]) + 3 * abs(h[2])) % 4
    hh = [list(h), np.array(h, dtype=float), np.array(h), list(h)][k]
    r = structure.StructureFactor(hh, cell, sgname, atoms, disper)
    F = complex(float(r[0]), float(r[1]))
    if k == 1:
        r2 = structure.StructureFactor(hh, cell, sgname, atoms, disper)
        F2 = complex(float(r2[0]), float(r2[1]))
        if F2 != F:
            raise AssertionError("StructureFactor returns %r the first time and %r the second time on the same atom objects" % (F, F2))
    return F
