"""Common machinery: TLC runner, emission parsing, verdict collection, evidence writer.

Conventions (DESIGN.md sections 5 and 6):
  exit 0  property held on everything explored (KNOWN-FINDING lines allowed)
  exit 1  at least one unlisted violation: "VIOLATION property=<id> replay=<path>"
  exit 2  machinery failure (TLC overflow, parse error, timeout): never a VIOLATION line
"""
import json
import os
import re
import shutil
import subprocess
import sys
import time

VERIF = os.path.dirname(os.path.dirname(os.path.abspath(__file__)))
REPO = os.environ.get("VERIF_REPO", "/repo")
SPEC = os.path.join(VERIF, "spec")
# VERIF_WORK / VERIF_EVIDENCE: private scratch and evidence directories, used only by the self-tests (selftest/automutate.py runs
# several checks against mutated copies in parallel); the registered commands never set them
WORK = os.environ.get("VERIF_WORK") or os.path.join(VERIF, ".work")
EVID = os.environ.get("VERIF_EVIDENCE") or os.path.join(VERIF, "evidence")
JAR = "/opt/veriftools/tla/tla2tools.jar"
DEPS = "/opt/veriftools/tla/CommunityModules-deps.jar"
NCPU = max(1, min(16, os.cpu_count() or 1))


class MachineryError(Exception):
    pass


def use_repo():
    """Make `import xfab` resolve to the tree under test (VERIF_REPO or /repo)."""
    if REPO not in sys.path:
        sys.path.insert(0, REPO)
    for m in list(sys.modules):
        if m == "xfab" or m.startswith("xfab."):
            f = getattr(sys.modules[m], "__file__", "") or ""
            if not f.startswith(REPO + os.sep):
                del sys.modules[m]
    import xfab  # noqa
    f = os.path.realpath(xfab.__file__)
    if not f.startswith(os.path.realpath(REPO) + os.sep):
        raise MachineryError("xfab imported from %s, expected under %s" % (f, REPO))
    return xfab


def workdir(pid, sub=None, wipe=False):
    d = os.path.join(WORK, pid) if sub is None else os.path.join(WORK, pid, sub)
    if wipe and os.path.isdir(d):
        shutil.rmtree(d, ignore_errors=True)
    os.makedirs(d, exist_ok=True)
    return d


_STAT_RE = re.compile(r"(\d+) states generated, (\d+) distinct states found, (\d+) states left on queue")
_DEPTH_RE = re.compile(r"The depth of the complete state graph search is (\d+)")


class TlcResult(object):
    def __init__(self):
        self.generated = 0
        self.distinct = 0
        self.depth = 0
        self.records = []       # emitted JSON records ("@@" lines)
        self.violated = []      # names of violated invariants/properties
        self.stdout = ""
        self.wall = 0.0
        self.coverage = {}      # action name -> (distinct, total) when -coverage was requested
        self.ok = False         # "Model checking completed. No error has been found."


def run_tlc(module, cfg, wd, workers=None, timeout=1800, env=None, simulate=None,
            coverage=False, depth_first=False, extra=None, specdir=None, continue_=False,
            heap="6g"):
    """Run TLC on spec/<module>.tla with spec/<cfg>. Returns TlcResult.

    Emission protocol: the model prints one line per case with PrintT("@@" \\o ToJson(rec));
    TLC renders a string value in quotes with escapes, so a line is a JSON string whose
    content, after the two-character sentinel, is a JSON object.
    """
    specdir = specdir or SPEC
    meta = os.path.join(wd, "tlc-meta-" + os.path.splitext(os.path.basename(cfg))[0])
    shutil.rmtree(meta, ignore_errors=True)
    os.makedirs(meta, exist_ok=True)
    tmp = os.path.join(wd, "jtmp")
    os.makedirs(tmp, exist_ok=True)
    cmd = ["java", "-XX:+UseParallelGC", "-Xmx" + heap, "-Xss16m", "-Djava.io.tmpdir=" + tmp,
           "-DTLA-Library=" + wd]
    if depth_first:
        cmd.append("-Dtlc2.tool.queue.IStateQueue=StateDeque")
    cmd += ["-cp", JAR + ":" + DEPS, "tlc2.TLC",
            "-workers", str(workers or NCPU), "-metadir", meta, "-noGenerateSpecTE",
            "-config", os.path.join(specdir, cfg)]
    if coverage:
        cmd += ["-coverage", "1"]
    if continue_:
        cmd += ["-continue"]
    if simulate:
        cmd += ["-simulate", simulate]
    if extra:
        cmd += list(extra)
    cmd.append(os.path.join(specdir, module + ".tla"))
    e = dict(os.environ)
    if env:
        e.update({k: str(v) for k, v in env.items()})
    t0 = time.time()
    try:
        p = subprocess.run(cmd, cwd=specdir, env=e, stdout=subprocess.PIPE,
                           stderr=subprocess.STDOUT, timeout=timeout)
    except subprocess.TimeoutExpired:
        subprocess.run(["pkill", "-f", meta], check=False)
        raise MachineryError("TLC timeout after %ss on %s/%s" % (timeout, module, cfg))
    r = TlcResult()
    r.wall = time.time() - t0
    out = p.stdout.decode("utf-8", "replace")
    r.stdout = out
    with open(os.path.join(wd, "tlc-" + os.path.splitext(os.path.basename(cfg))[0] + ".log"), "w") as f:
        # keep the log small: drop emission lines
        f.write("\n".join(l for l in out.splitlines() if not l.startswith('"@@')))
    for line in out.splitlines():
        if line.startswith('"@@'):
            try:
                r.records.append(json.loads(json.loads(line)[2:]))
            except Exception as ex:
                raise MachineryError("cannot parse emission line %r: %s" % (line[:200], ex))
    m = None
    for m in _STAT_RE.finditer(out):
        pass
    if m:
        r.generated, r.distinct = int(m.group(1)), int(m.group(2))
    m = _DEPTH_RE.search(out)
    if m:
        r.depth = int(m.group(1))
    for m in re.finditer(r"Invariant (\S+) is violated", out):
        r.violated.append(m.group(1))
    for m in re.finditer(r"Action property (\S+) is violated", out):
        r.violated.append(m.group(1))
    if "Temporal properties were violated" in out:
        r.violated.append("<temporal>")
    r.ok = ("Model checking completed. No error has been found." in out) or \
           (simulate is not None and p.returncode == 0 and
            not any(l.startswith("Error:") for l in out.splitlines()))
    if coverage:
        for m in re.finditer(r"<(\w+) line \d+, col \d+ to line \d+, col \d+ of module (\w+)>: (\d+):(\d+)", out):
            r.coverage[m.group(1)] = (int(m.group(3)), int(m.group(4)))
    bad = None
    if "Overflow" in out or "overflow" in out:
        bad = "integer overflow in TLC"
    elif "Parsing or semantic analysis failed" in out or "*** Errors:" in out or "Parse Error" in out:
        bad = "TLA+ parse/semantic error"
    elif "java.lang.OutOfMemoryError" in out:
        bad = "TLC out of memory"
    elif not r.ok and not r.violated:
        bad = "TLC ended without verdict (rc=%s)" % p.returncode
    if bad:
        tail = "\n".join(l for l in out.splitlines() if not l.startswith('"@@'))[-3000:]
        raise MachineryError("%s in %s/%s\n%s" % (bad, module, cfg, tail))
    shutil.rmtree(meta, ignore_errors=True)
    shutil.rmtree(tmp, ignore_errors=True)
    return r


def run_apalache(module, inv, wd, length=1, init=None, timeout=600, specdir=None):
    """Discharge an (inductive) invariant with Apalache. Returns (ok, text)."""
    specdir = specdir or SPEC
    out = os.path.join(wd, "apalache-out")
    shutil.rmtree(out, ignore_errors=True)
    cmd = ["apalache-mc", "check", "--inv=" + inv, "--length=%d" % length, "--out-dir=" + out,
           "--run-dir=" + os.path.join(wd, "apalache-run")]
    if init:
        cmd.append("--init=" + init)
    cmd.append(os.path.join(specdir, module + ".tla"))
    e = dict(os.environ)
    e["JVM_ARGS"] = "-Xmx4g -Djava.io.tmpdir=" + wd
    try:
        p = subprocess.run(cmd, cwd=wd, env=e, stdout=subprocess.PIPE, stderr=subprocess.STDOUT,
                           timeout=timeout)
    except subprocess.TimeoutExpired:
        return None, "timeout"
    txt = p.stdout.decode("utf-8", "replace")
    shutil.rmtree(out, ignore_errors=True)
    shutil.rmtree(os.path.join(wd, "apalache-run"), ignore_errors=True)
    ok = "The outcome is: NoError" in txt
    return ok, txt


def apalache_inductive(wd, module, inv, indinit, cov, timeout=300):
    """Init => Inv (length 0) and IndInit /\\ Next => Inv' (length 1): the invariant holds for behaviours of any length"""
    a, ta = run_apalache(module, inv, wd, length=0, init="Init", timeout=timeout)
    b, tb = run_apalache(module, inv, wd, length=1, init=indinit, timeout=timeout)
    if a is False or b is False:
        raise MachineryError("Apalache refutes the inductive invariant %s of %s" % (inv, module))
    cov.setdefault("apalache_obligations", {})[module + "." + inv] = \
        "inductive: proved for histories of any length" if (a and b) else "not discharged (timeout) - TLC's bounded check stands"


def apalache_obligations(wd, invs, cov, timeout=300):
    """thorough tier: discharge polynomial identities for ALL integers; result goes into the evidence"""
    res = {}
    for inv in invs:
        ok, txt = run_apalache("apalache/Identities", inv, wd, length=0, timeout=timeout)
        if ok is False:
            raise MachineryError("Apalache refutes %s: %s" % (inv, txt[-1500:]))
        res[inv] = "proved for all integers" if ok else "not discharged (timeout) - TLC's lattice check stands"
    cov["apalache_obligations"] = res
    return res


# ---------------------------------------------------------------------------
# verdicts
# ---------------------------------------------------------------------------

def load_known_findings():
    p = os.path.join(VERIF, "known_findings.json")
    if not os.path.exists(p):
        return []
    with open(p) as f:
        return json.load(f)


class Verdict(object):
    """Collects per-case outcomes for one property run."""

    def __init__(self, pid, tier, seed):
        self.pid = pid
        self.tier = tier
        self.seed = seed
        self.violations = []        # dicts, each becomes a replay file
        self.known_hits = {}        # finding id -> count
        self.known = [k for k in load_known_findings()
                      if k.get("property") == pid and k.get("status") == "known"]
        self.evals = 0
        self.distinct = set()
        self.samples = []
        self.notes = []
        self.t0 = time.time()
        self.max_replays = 25

    def case(self, key=None, nontrivial=True, sample=None):
        self.evals += 1
        if key is not None and nontrivial:
            self.distinct.add(key)
        if sample is not None and len(self.samples) < 6:
            self.samples.append(sample)

    def known_finding(self, fid, detail=None):
        """Record that a listed known finding was met. Caller must already have established
        that the case matches the finding's deviation model exactly."""
        if not any(k["id"] == fid for k in self.known):
            raise MachineryError("known_finding(%s) is not listed for %s" % (fid, self.pid))
        self.known_hits[fid] = self.known_hits.get(fid, 0) + 1

    def is_listed(self, fid):
        return any(k["id"] == fid for k in self.known)

    def violation(self, what, case):
        self.violations.append({"what": what, "case": case})

    def finish(self, level, coverage, assumptions):
        os.makedirs(EVID, exist_ok=True)
        if not getattr(self, "_probed", False) and os.environ.get("VERIF_NO_IMPORT_PROBE") != "1":
            self._probed = True
            try:
                for m_ in import_order_probe(self.pid):
                    self.violation(m_, {"probe": "harness/isolated.py", "property": self.pid})
            except Exception as ex_:
                raise MachineryError("import-order probe failed to run: %r" % (ex_,))
        rd = os.path.join(WORK, self.pid, "replay")
        shutil.rmtree(rd, ignore_errors=True)
        os.makedirs(rd, exist_ok=True)
        for k in self.known:
            if self.known_hits.get(k["id"]):
                print("KNOWN-FINDING: property=%s %s [%s; met %d time(s) this run]" %
                      (self.pid, k["what"], k["id"], self.known_hits[k["id"]]))
        for i, v in enumerate(self.violations[: self.max_replays]):
            path = os.path.join(rd, "%s-%03d.json" % (self.pid, i))
            with open(path, "w") as f:
                json.dump({"property": self.pid, "seed": self.seed, "tier": self.tier,
                           "what": v["what"], "case": v["case"]}, f, indent=1, default=_js)
            print("VIOLATION property=%s replay=%s  # %s" % (self.pid, path, v["what"][:300]))
        if len(self.violations) > self.max_replays:
            print("... %d further violations not written out" % (len(self.violations) - self.max_replays))
        cov = dict(coverage)
        cov.setdefault("evaluations", self.evals)
        cov.setdefault("distinct_nontrivial", len(self.distinct))
        cov.setdefault("samples", self.samples if self.samples else [{"note": "no sample recorded"}])
        if self.known_hits:
            cov["known_findings_met"] = dict(self.known_hits)
        if self.notes:
            cov["notes"] = self.notes
        ev = {"property_id": self.pid, "tier": self.tier, "seed": int(self.seed), "level": level,
              "coverage": cov, "assumptions": list(assumptions),
              "wall_s": round(time.time() - self.t0, 2), "violations": len(self.violations)}
        with open(os.path.join(EVID, self.pid + ".json"), "w") as f:
            json.dump(ev, f, indent=1, default=_js)
        return 1 if self.violations else 0


def _js(o):
    try:
        import numpy as np
        if isinstance(o, np.ndarray):
            return o.tolist()
        if isinstance(o, (np.integer,)):
            return int(o)
        if isinstance(o, (np.floating,)):
            return float(o)
        if isinstance(o, (np.bool_,)):
            return bool(o)
    except Exception:
        pass
    if isinstance(o, (set, frozenset)):
        return sorted(o)
    if isinstance(o, complex):
        return [o.real, o.imag]
    return repr(o)


class TlaSet(list):
    """marks a Python list to be written as a TLA+ set literal"""


class TlaMap(dict):
    """a Python dict written as a TLA+ function (k :> v @@ ...), for keys that are not identifiers"""


class TlaRaw(object):
    """a TLA+ expression written verbatim"""
    def __init__(self, text):
        self.text = text


def tla_literal(o):
    """Python value -> TLA+ literal (dict -> record, list -> tuple, str, int, bool)."""
    if isinstance(o, bool):
        return "TRUE" if o else "FALSE"
    if isinstance(o, int):
        return str(o) if o >= 0 else "(%d)" % o
    if isinstance(o, str):
        return '"' + o.replace("\\", "\\\\").replace('"', '\\"') + '"'
    if isinstance(o, TlaSet):
        return "{" + ",".join(tla_literal(x) for x in o) + "}"
    if isinstance(o, TlaRaw):
        return o.text
    if isinstance(o, TlaMap):
        if not o:
            return "<<>>"
        return "(" + " @@ ".join("(%s :> %s)" % (tla_literal(k), tla_literal(v)) for k, v in o.items()) + ")"
    if isinstance(o, (list, tuple)):
        return "<<" + ",".join(tla_literal(x) for x in o) + ">>"
    if isinstance(o, dict):
        if not o:
            raise MachineryError("empty record has no TLA+ literal")
        return "[" + ", ".join("%s |-> %s" % (k, tla_literal(v)) for k, v in o.items()) + "]"
    raise MachineryError("no TLA+ literal for %r" % (o,))


def write_data_module(wd, name, defs):
    """Write <wd>/<name>.tla with one definition per entry of defs (exported, literal data).
    TLC evaluates literal zero-arity definitions once; JsonDeserialize under a constant
    override was measured to be re-read on every evaluation (13 min instead of seconds)."""
    lines = ["---- MODULE %s ----" % name, "EXTENDS Integers, TLC", "\\* generated at check time from the tree under test; not a snapshot"]
    for k, v in defs.items():
        lines.append("%s == %s" % (k, tla_literal(v)))
    lines.append("====")
    with open(os.path.join(wd, name + ".tla"), "w") as f:
        f.write("\n".join(lines) + "\n")


def write_json(path, obj):
    with open(path, "w") as f:
        json.dump(obj, f, default=_js)
    return path


def import_order_probe(pid):
    """harness/isolated.py evaluates a fixed probe of the property's functions in fresh interpreters that import (or use) other parts
    of the package FIRST, in different orders.  The printed values must be identical: what a module does to shared tables when it is
    imported or first used must not change what the functions under test return.  Returns a list of discrepancy texts."""
    import json as _json
    from concurrent.futures import ThreadPoolExecutor
    orders = ["", "laue", "tools", "parameters,detector,symmetry,structure,laue,tools", "warm"]
    script = os.path.join(VERIF, "harness", "isolated.py")

    # environment variables the package's source mentions by name (os.environ[...], os.environ.get(...), os.getenv(...)): each is set to
    # "0", "1" and "" in turn for one more run of the probe - the documented behaviour has no environment-dependent part
    import glob as _glob
    import re as _re
    envnames = set()
    for f_ in _glob.glob(os.path.join(REPO, "xfab", "*.py")):
        try:
            txt_ = open(f_).read()
        except Exception:
            continue
        envnames |= set(_re.findall(r"""(?:environ(?:\.get)?\s*[\(\[]|getenv\s*\()\s*['"]([A-Za-z_][A-Za-z_0-9]*)['"]""", txt_))
    envruns = [("env %s=%s" % (nm_, val_), {nm_: val_}) for nm_ in sorted(envnames) for val_ in ("0", "1", "")]

    def one(order, extra_env=None):
        e = dict(os.environ, PYTHONHASHSEED="0", PYTHONDONTWRITEBYTECODE="1")
        e.pop("PYTHONPATH", None)
        if extra_env:
            e.update(extra_env)
            order_label, order = order, ""
        else:
            order_label = order
        q = subprocess.run([sys.executable, script, REPO, order, pid], stdout=subprocess.PIPE, stderr=subprocess.PIPE, env=e, timeout=600)
        txt = q.stdout.decode("utf-8", "replace")
        line = [l for l in txt.splitlines() if l.startswith("@@")]
        if q.returncode != 0 or not line:
            return order_label, None, q.stderr.decode("utf-8", "replace")[-600:]
        return order_label, _json.loads(line[-1][2:]), ""
    with ThreadPoolExecutor(max_workers=len(orders)) as ex:
        res = list(ex.map(one, orders))
        res += list(ex.map(lambda le: one(le[0], le[1]), envruns))
    out = []
    ref_order, ref, err = res[0]
    for order, val, err in res:
        if val is None:
            out.append("a fresh interpreter that first imports/uses [%s] fails on the probe of %s: %s" % (order or "nothing", pid, err.strip().splitlines()[-1:] ))
    ok = [(o, v_) for (o, v_, e_) in res if v_ is not None]
    for (o, v_) in ok[1:]:
        for k in sorted(ok[0][1]):
            if v_.get(k) != ok[0][1][k]:
                out.append("%s returns %s in a process that first imports/uses [%s] and %s in one that first imports/uses [%s]: the result depends "
                           "on import order or on what ran first" % (k, str(v_.get(k))[:120], o or "nothing", str(ok[0][1][k])[:120], ok[0][0] or "nothing"))
                break
    return out


def package_in_use():
    """The functions under test are never the first thing a process asks of the package: a structure factor, a multiplicity, a reflection list and a
    lookup come first here (results unused) - what they leave behind in the process is part of the conditions they run under"""
    from xfab import structure, tools
    try:
        at = structure.atom_entry(label="K1", atomtype="K", pos=[0.1, 0.2, 0.3], adp_type="Uiso", adp=0.01, occ=1.0, symmulti=2)
        structure.StructureFactor([1, 2, -1], [5.0, 6.0, 7.0, 90.0, 100.0, 90.0], "P21", [at], {"K": [0.2, 0.25]})
        structure.multiplicity([0.1, 0.2, 0.3], sgno=14)
        tools.genhkl_all([5.0, 6.0, 7.0, 90.0, 100.0, 90.0], 0.0, 0.3, sgno=14)
    except Exception:
        pass
    try:
        # ... and a structure read from a CIF whose atom types are ions (Fe3+, O2-), as most inorganic CIFs have them
        path = os.path.join(workdir("warmup"), "ions.cif")
        with open(path, "w") as f:
            f.write("data_ions\n_cell_length_a 5.0\n_cell_length_b 5.0\n_cell_length_c 13.7\n_cell_angle_alpha 90\n_cell_angle_beta 90\n"
                    "_cell_angle_gamma 120\n_symmetry_space_group_name_H-M 'R -3 c'\nloop_\n_atom_type_symbol\n_atom_type_scat_dispersion_real\n"
                    "_atom_type_scat_dispersion_imag\nFe3+ 0.3463 0.8444\nO2- 0.0106 0.0060\nloop_\n_atom_site_label\n_atom_site_type_symbol\n"
                    "_atom_site_fract_x\n_atom_site_fract_y\n_atom_site_fract_z\n_atom_site_U_iso_or_equiv\n_atom_site_occupancy\n"
                    "Fe1 Fe3+ 0.0 0.0 0.3553 0.004 1.0\nO1 O2- 0.3059 0.0 0.25 0.005 1.0\n")
        b = structure.build_atomlist()
        b.CIFread(ciffile=path)
        os.remove(path)
    except Exception:
        pass


def pmap(func, items, nproc=None, chunk=None):
    """Parallel map over processes (fork). func must be a module-level function taking one item
    and returning a picklable result. Order preserved."""
    import multiprocessing as mp
    items = list(items)
    nproc = nproc or NCPU
    if len(items) < 64 or nproc <= 1:
        return [func(x) for x in items]
    ctx = mp.get_context("fork")
    chunk = chunk or max(1, len(items) // (nproc * 8))
    with ctx.Pool(nproc) as pool:
        return pool.map(func, items, chunksize=chunk)
