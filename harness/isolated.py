"""Import-order / first-use probes.

usage: python isolated.py <repo> <order> <pid>
  order: comma separated module names imported (and, for 'warm', exercised) BEFORE the probe of <pid> runs, e.g.
         ''  (nothing first),  'laue', 'tools,laue,structure,symmetry,detector,parameters', 'warm'
Prints one JSON object: the probe values of <pid>.  The same probe run after different import orders / first uses must print
the same values: what a module does to shared tables when it is imported or first used must not change what another module
returns for the same valid input.
"""
import json
import sys


def probe(pid):
    import numpy as np
    cell = [5.0, 6.0, 7.0, 80.0, 95.0, 100.0]
    hexc = [5.0, 5.0, 7.0, 90.0, 90.0, 120.0]
    U1 = np.array([[0.36, 0.48, -0.8], [-0.8, 0.6, 0.0], [0.48, 0.64, 0.6]])
    U2 = np.array([[0.0, -1.0, 0.0], [1.0, 0.0, 0.0], [0.0, 0.0, 1.0]])
    out = {}
    if pid in ("C01", "C14"):
        from xfab import tools
        out["tools.form_b_mat"] = np.asarray(tools.form_b_mat(cell)).tolist()
        out["tools.sintl"] = float(tools.sintl(cell, [1, -2, 3]))
        out["tools.a_to_cell"] = [float(x) for x in tools.a_to_cell(tools.form_a_mat(cell))]
        from xfab import laue
        out["laue.form_b_mat"] = np.asarray(laue.form_b_mat(cell)).tolist()
        out["laue.cell_invert"] = [float(x) for x in laue.cell_invert(cell)]
    if pid == "C02":
        from xfab import tools
        ubi = tools.u_to_ubi(U1, cell)
        out["tools.u_to_ubi"] = np.asarray(ubi).tolist()
        out["tools.ubi_to_u"] = np.asarray(tools.ubi_to_u(ubi)).tolist()
        out["tools.ub_to_u_b"] = [np.asarray(q).tolist() for q in tools.ub_to_u_b(U1.dot(tools.form_b_mat(cell)))]
    if pid == "C03":
        from xfab import tools
        out["tools.euler_to_u"] = np.asarray(tools.euler_to_u(0.3, 1.1, 5.9)).tolist()
        out["tools.u_to_euler"] = [float(x) for x in tools.u_to_euler(U1)]
        out["tools.u_to_rod"] = [float(x) for x in tools.u_to_rod(U1)]
        out["tools.quart_to_omega"] = np.asarray(tools.quart_to_omega(33.0, 0.01, -0.02)).tolist()
    if pid in ("C04", "C15"):
        from xfab import sg
        g = sg.sg(sgname="R-3c")
        out["sg.R-3c"] = [int(g.no), str(g.name), int(g.nsymop), np.asarray(g.trans, dtype=float).round(6).tolist(), np.asarray(g.rot).tolist()[:3]]
        g = sg.sg(sgno=227)
        out["sg.227"] = [str(g.name), int(g.nsymop), [int(x) for x in g.syscond], np.asarray(g.trans, dtype=float).round(6).tolist()[:8]]
        from xfab import structure
        out["multiplicity"] = [int(structure.multiplicity([0.0, 0.0, 0.25], sgname="R-3c")), int(structure.multiplicity([0.125, 0.125, 0.125], sgno=227)),
                               int(structure.multiplicity([0.1, 0.2, 0.3], sgno=14))]
    if pid in ("C05", "C06", "C14"):
        from xfab import tools, laue
        np.random.seed(5)
        out["tools.genhkl_all"] = sorted(tuple(int(x) for x in r) for r in np.asarray(tools.genhkl_all(hexc, 0.0, 0.35, sgno=167)))
        np.random.seed(5)
        out["laue.genhkl_all"] = sorted(tuple(int(x) for x in r) for r in np.asarray(laue.genhkl_all(hexc, 0.0, 0.35, sgno=167)))
        out["tools.genhkl_unique"] = np.asarray(tools.genhkl_unique(cell, 0.0, 0.25, sgno=2, output_stl=True)).round(12).tolist()
        out["laue.genhkl_unique"] = np.asarray(laue.genhkl_unique(hexc, 0.1, 0.3, sgname="P63/mmc")).tolist()
        out["tools.sysabs"] = [int(tools.sysabs([h, k, l], sg_, "cubic")) for (h, k, l) in ((1, 1, 0), (2, 0, 0), (0, 2, 4), (1, 3, 5))
                               for sg_ in ([2, 2, 2, 2, 0, 0, 0, 0, 2, 0, 2, 2, 4, 2, 2, 4, 2, 2, 4, 2, 4, 4, 4, 0, 0, 0],)]
    if pid in ("C07", "C08", "C16", "C17"):
        from xfab import structure
        at = [structure.atom_entry(label="Fe1", atomtype="FE", pos=[0.1, 0.2, 0.3], adp_type="Uani", adp=[0.01, 0.012, 0.009, 0.001, -0.002, 0.0005], occ=0.7, symmulti=4),
              structure.atom_entry(label="O1", atomtype="O", pos=[0.25, 0.0, 0.4], adp_type="Uiso", adp=0.02, occ=1.0, symmulti=4)]
        F = structure.StructureFactor([1, 2, -1], [5.0, 6.0, 7.0, 90.0, 100.0, 90.0], "P21/c", at, {"FE": [0.3, 0.8], "O": None})
        out["StructureFactor"] = [float(F[0]), float(F[1])]
        out["FormFactor"] = [float(structure.FormFactor(el, s)) for el in ("H", "FE", "CS", "PU") for s in (0.0, 0.4, 2.0)]
    if pid == "C09":
        from xfab import tools, laue
        g = np.array([-0.03, 0.11, 0.13])
        tw = 2 * np.arcsin(np.sqrt(g.dot(g)))
        out["tools.find_omega_general"] = [np.asarray(q).tolist() for q in tools.find_omega_general(g, tw, 0.01, -0.02)]
        out["laue.find_omega_quart"] = [np.asarray(q).tolist() for q in laue.find_omega_quart(g, tw, 0.01, -0.02)]
        out["tools.find_omega"] = np.asarray(tools.find_omega(g, tw)).tolist()
        out["tools.tth"] = float(tools.tth(cell, [1, -2, 3], 0.3))
    if pid in ("C10", "C11"):
        from xfab import detector, tools
        R = tools.detect_tilt(0.01, -0.02, 0.03)
        out["det_coor2"] = [float(x) for x in detector.det_coor2(0.2, 1.0, 150.0, 0.05, 0.05, 1000.5, 1010.25, R, 0.1, -0.2, 0.3)]
        out["detector_to_lab"] = np.asarray(detector.detector_to_lab(1200.0, 900.0, 150.0, 0.05, 0.05, 1000.5, 1010.25, R)).tolist()
        out["xy_to_detyz"] = [float(x) for x in detector.xy_to_detyz([3.0, 5.0], 0, -1, 1, 0, 11, 7)]
        out["eta_rad"] = [float(x) for x in detector.detyz_to_eta_and_radpix(np.array([1100.0, 950.0]), 1000.5, 1010.25)]
    if pid == "C12":
        from xfab import symmetry
        out["Umis6"] = np.asarray(symmetry.Umis(U1, U2, 6)).round(9).tolist()
        out["Umis7"] = np.asarray(symmetry.Umis(U1, U2, 7)).round(9).tolist()
        out["rot5"] = np.asarray(symmetry.rotations(5)).round(12).tolist()
        out["perm6"] = np.asarray(symmetry.permutations(6)).tolist()
    if pid == "C13":
        from xfab import tools, laue
        B = tools.form_b_mat(cell)
        B2 = B.copy()
        B2[0, 1] += 0.002
        B2[2, 2] *= 1.001
        out["tools.b_to_epsilon"] = [float(x) for x in tools.b_to_epsilon(B2, cell)]
        out["laue.epsilon_to_b"] = np.asarray(laue.epsilon_to_b([0.001, 0.0, 0.0005, -0.002, 0.0, 0.0015], cell)).tolist()
    if pid == "C18":
        from xfab import tools, laue
        c2 = [5.487928, 6.135691, 9.1007, 105.645223, 98.670721, 116.565051]
        out["tools.reduce_cell"] = [float(x) for x in tools.reduce_cell(c2)]
        out["laue.reduce_cell"] = [float(x) for x in laue.reduce_cell(c2)]
    if pid == "C19":
        from xfab import parameters
        p = parameters.parameters(a=1, b="2.5")
        p.addpar(parameters.par("c-d", "7", vary=True, can_vary=True, stepsize=0.1))
        p.set_parameters({"e": " x "})
        out["pars"] = {k: repr(v) for k, v in sorted(p.get_parameters().items())}
        out["vary"] = [repr(x) for x in p.get_variable_values()]
    if pid == "C20":
        import xfab
        from xfab import tools
        out["switch"] = bool(xfab.CHECKS.activated)
        # an assignment survives whatever is imported afterwards
        xfab.CHECKS.activated = False
        import importlib
        for m_ in ("symmetry", "structure", "laue", "detector", "parameters", "sg"):
            importlib.import_module("xfab." + m_)
        out["switch_after_assigning_False_and_importing_the_rest"] = bool(xfab.CHECKS.activated)
        xfab.CHECKS.activated = True
        bad = U1 * 1.01
        try:
            tools.u_to_rod(bad)
            out["reject"] = "accepted"
        except ValueError:
            out["reject"] = "ValueError"
        out["valid"] = [float(x) for x in tools.u_to_rod(U1)]
    return out


def warm():
    """use a bit of everything first"""
    import numpy as np
    from xfab import tools, laue, structure, symmetry, detector, parameters, sg
    at = [structure.atom_entry(label="K1", atomtype="K", pos=[0.1, 0.2, 0.3], adp_type="Uiso", adp=0.01, occ=1.0, symmulti=2)]
    structure.StructureFactor([1, 2, -1], [5.0, 6.0, 7.0, 90.0, 100.0, 90.0], "P21", at, {"K": [0.2, 0.25]})
    structure.multiplicity([0.1, 0.2, 0.3], sgno=14)
    tools.genhkl_all([5.0, 5.0, 7.0, 90.0, 90.0, 120.0], 0.0, 0.2, sgno=194)
    laue.genhkl_unique([5.0, 5.0, 5.0, 90.0, 90.0, 90.0], 0.0, 0.2, sgno=225)
    symmetry.Umis(np.eye(3), np.eye(3), 6)
    symmetry.rotations(5)
    sg.sg(sgname="R3cr")
    tools.u_to_euler(np.eye(3))
    laue.reduce_cell([5.0, 6.0, 7.0, 80.0, 95.0, 100.0])
    detector.det_coor2(0.2, 1.0, 150.0, 0.05, 0.05, 1000.0, 1000.0, np.eye(3), 0, 0, 0)
    parameters.parameters(a=1)


def main():
    repo, order, pid = sys.argv[1], sys.argv[2], sys.argv[3]
    sys.path.insert(0, repo)
    import importlib
    for m in [x for x in order.split(",") if x]:
        if m == "warm":
            warm()
        else:
            importlib.import_module("xfab." + m)
    import xfab
    assert xfab.__file__.startswith(repo), xfab.__file__
    print("@@" + json.dumps(probe(pid)))


if __name__ == "__main__":
    main()
