"""C01 - cell parameters, A/B matrices, volume and sin(theta)/lambda share one metric.

TLC (spec/Cell.tla) enumerates integer metric tensors (positive definite, Gram bound of the property) and all
paths of the representation graph up to a depth, checks the adjugate identities the projections rest on and
emits exact det G, adj G and Q*(h).  Each path is stepped through the real functions of both modules with the
projection of every intermediate result compared with the exact rational.
"""
import random
import warnings

import math
import common
import lattice_lib as L

ASSUME = [
    "cells are float images (sqrt/acos in the harness) of integer metric tensors u*G; the Gram bound keeps acos arguments in (-1,1)",
    "tolerance 1e-9 relative for projections and round trips (lengths), 1e-7 degree for angles",
    "oracle: integer metric algebra in TLC (adjugate, determinant, quadratic forms), not the closed forms used by the code",
]


def worker(a):
    """replay one behaviour in both modules; returns (ncalls, [violation texts])"""
    rec, us = a
    import importlib
    import numpy as np
    out = []
    n = 0
    G = rec["G"]
    det = rec["det"]
    adj = rec["adj"]
    for modname in ("tools", "laue"):
        mod = importlib.import_module("xfab." + modname)
        w2 = (L.TWO_PI ** 2) if L.W[modname] else 1.0
        # integer-typed arguments FIRST (lists of Python ints, integer arrays): a work array or table shaped after the first argument a
        # function ever saw must not colour the float calls that follow.  4 x 5 x 6 orthogonal: every answer is known exactly.
        try:
            w1_ = math.sqrt(w2)
            ic = [4, 5, 6, 90, 90, 90]
            pre = [("cell_volume", mod.cell_volume(ic), 120.0),
                   ("a_to_cell", mod.a_to_cell([[4, 0, 0], [0, 5, 0], [0, 0, 6]]), [4, 5, 6, 90, 90, 90]),
                   ("a_to_cell(int array)", mod.a_to_cell(np.array([[4, 0, 0], [0, 5, 0], [0, 0, 6]])), [4, 5, 6, 90, 90, 90]),
                   ("form_a_mat", mod.form_a_mat(ic), [[4, 0, 0], [0, 5, 0], [0, 0, 6]]),
                   ("form_b_mat", mod.form_b_mat(np.array(ic)), [[w1_ / 4, 0, 0], [0, w1_ / 5, 0], [0, 0, w1_ / 6]]),
                   ("sintl", mod.sintl(ic, [2, 0, 0]), 0.25),
                   ("cell_invert", mod.cell_invert(ic), [0.25, 0.2, 1 / 6.0, 90, 90, 90])]
            if L.W[modname] == 0:
                pre.append(("b_to_cell", mod.b_to_cell(np.array([[1, 0, 0], [0, 1, 0], [0, 0, 2]])), [1, 1, 0.5, 90, 90, 90]))
            for nm_, got_, want_ in pre:
                if not L.close(got_, want_, rel=1e-12, scale=None if nm_ != "form_b_mat" and nm_ != "form_a_mat" else 1.0):
                    out.append("%s on integer-typed arguments gives %s, expected %s (xfab.%s)" % (nm_, np.asarray(got_, dtype=float).tolist(), want_, modname))
        except Exception as ex_:
            out.append("exception %r on integer-typed arguments (xfab.%s)" % (ex_, modname))
        for ui, u in enumerate(us):
            cell0 = L.as_container(L.cell_from_metric(G, u), int(G[0]) + int(G[3]) + len(rec["path"]))
            if rec.get("intcell") and ui == 0:
                # scale 1: the same cell typed as Python ints / an integer array
                cell0 = list(rec["intcell"]) if len(rec["path"]) % 2 else np.array(rec["intcell"])
            rcell_metric = [x / (u * det) for x in adj]          # reciprocal metric tensor entries (no 2pi)
            cur = cell0
            rep = "cell"
            tag = "xfab.%s metric %s u=%.6g" % (modname, G, u)

            def CALL(f, *args):
                r, m_ = L.twice(f, *args)
                if m_:
                    out.append(m_ + " (%s)" % tag)
                return r

            def probes(cell):
                v = []
                V = CALL(mod.cell_volume, cell)
                if not (abs(V * V - u ** 3 * det) <= 1e-9 * u ** 3 * det):
                    v.append("cell_volume^2 = %.15g, metric gives %.15g (%s)" % (V * V, u ** 3 * det, tag))
                for (h, q) in rec["q"]:
                    if h == [0, 0, 0]:
                        continue
                    s = mod.sintl(cell, L.as_container(h, len(v) + h[0]))
                    want = q / (4.0 * u * det)
                    if not (abs(s * s - want) <= 1e-9 * want):
                        v.append("sintl(%s)^2 = %.15g, metric gives %.15g (%s)" % (h, s * s, want, tag))
                        break
                return v
            try:
                out += probes(cur)
                n += 1 + len(rec["q"])
                for step in rec["path"]:
                    n += 1
                    if step == "form_a_mat":
                        A, rep_msg = L.twice(mod.form_a_mat, cur)
                        A = np.asarray(A, dtype=float)
                        if rep_msg:
                            out.append(rep_msg + " (%s)" % tag)
                        if rep == "cell":
                            want = u * L.sym(G)
                            rep = "A"
                        else:
                            want = L.sym(rcell_metric)
                            rep = "Astar"
                        if not L.upper_pos(A):
                            out.append("form_a_mat is not upper triangular with positive diagonal (%s)" % tag)
                        if not L.close(A.T.dot(A), want):
                            out.append("A'A differs from the %s metric tensor (%s): %s vs %s" %
                                       ("direct" if rep == "A" else "reciprocal", tag, A.T.dot(A).tolist(), want.tolist()))
                        if rep == "A":
                            V = mod.cell_volume(cur)
                            if not (abs(np.linalg.det(A) - V) <= 1e-9 * V):
                                out.append("det A = %.15g but cell_volume = %.15g (%s)" % (np.linalg.det(A), V, tag))
                        cur = A
                    elif step == "form_b_mat":
                        B, rep_msg = L.twice(mod.form_b_mat, cur)
                        B = np.asarray(B, dtype=float)
                        if rep_msg:
                            out.append(rep_msg + " (%s)" % tag)
                        want = w2 * L.sym(rcell_metric)
                        if not L.upper_pos(B):
                            out.append("form_b_mat is not upper triangular with positive diagonal (%s)" % tag)
                        if not L.close(B.T.dot(B), want):
                            out.append("B'B differs from the reciprocal metric tensor%s (%s)" %
                                       (" x (2pi)^2" if L.W[modname] else "", tag))
                        for (h, q) in rec["q"][:3]:
                            s = mod.sintl(cell0, h)
                            g = B.dot(np.array(h, dtype=float))
                            ref = np.sqrt(g.dot(g)) / (2.0 * (L.TWO_PI if L.W[modname] else 1.0))
                            if not (abs(s - ref) <= 1e-9 * max(ref, 1e-300)):
                                out.append("sintl(%s) = %.15g but |B.hkl|/%s = %.15g (%s)" %
                                           (h, s, "4pi" if L.W[modname] else "2", ref, tag))
                        cur, rep = B, "B"
                    elif step == "form_a_mat_inv":
                        Ai = np.asarray(CALL(mod.form_a_mat_inv, cur), dtype=float)
                        A, rep_msg = L.twice(mod.form_a_mat, cur)
                        A = np.asarray(A, dtype=float)
                        if rep_msg:
                            out.append(rep_msg + " (%s)" % tag)
                        if not L.close(Ai.dot(A), np.eye(3), scale=1.0):
                            out.append("form_a_mat_inv . form_a_mat != I (%s)" % tag)
                        # independent: (A^-1)(A^-1)' = (A'A)^-1 = reciprocal metric
                        if not L.close(Ai.dot(Ai.T), L.sym(rcell_metric)):
                            out.append("form_a_mat_inv: Ainv.Ainv' differs from the reciprocal metric (%s)" % tag)
                        cur, rep = Ai, "Ainv"
                    elif step == "cell_invert":
                        rc, rep_msg = L.twice(mod.cell_invert, cur)
                        rc = list(rc)
                        if rep_msg:
                            out.append(rep_msg + " (%s)" % tag)
                        if rep == "cell":
                            want = L.cell_from_metric(adj, 1.0 / (u * det))
                            rep = "recip"
                        else:
                            want = cell0
                            rep = "cell"
                        if not L.cell_close(rc, want):
                            out.append("cell_invert gives %s, metric algebra gives %s (%s)" % (rc, want, tag))
                        cur = rc
                        if rep == "cell":
                            out += probes(cur)
                    elif step == "a_to_cell":
                        c = list(CALL(mod.a_to_cell, cur))
                        want = cell0 if rep == "A" else L.cell_from_metric(adj, 1.0 / (u * det))
                        rep = "cell" if rep == "A" else "recip"
                        if not L.cell_close(c, want):
                            out.append("a_to_cell gives %s, expected %s (%s)" % (c, want, tag))
                        cur = c
                    elif step == "b_to_cell":
                        c = list(CALL(mod.b_to_cell, cur))
                        if not L.cell_close(c, cell0):
                            out.append("b_to_cell(form_b_mat(cell)) gives %s, expected %s (%s)" % (c, cell0, tag))
                        cur, rep = c, "cell"
                    else:
                        out.append("unknown step %s" % step)
            except Exception as ex:
                out.append("exception %r at path %s (%s)" % (ex, rec["path"], tag))
    return n, out


def integer_cells(rng, n):
    """cells a user types as integers: integral lengths, angles 60/90/120 degrees -> integer metric tensor (2 | a b etc.)"""
    import genhkl_lib as gl
    out = {}
    cosn = {60: 1, 90: 0, 120: -1}          # 2 cos
    tries = 0
    while len(out) < n and tries < 5000:
        tries += 1
        a, b, c = [rng.choice([2, 4, 6]) for _ in range(3)]      # det G^2 must fit 32 bits (RecipPosDef)
        al, be, ga = [rng.choice([60, 90, 90, 120]) for _ in range(3)]
        m = [a * a, b * b, c * c, b * c * cosn[al] // 2, a * c * cosn[be] // 2, a * b * cosn[ga] // 2]
        if gl.spd(m) and gl.gram_ok(m) and (al, be, ga) != (90, 90, 90):
            out[tuple(m)] = [a, b, c, al, be, ga]
    return out


def cases_module(wd, rng, tier, name="CellCases", nh=6, box=3, metrics=()):
    hk = {(1, 0, 0), (0, 1, 0), (0, 0, 1), (1, 1, 1), (1, -1, 0), (-2, 1, 3)}
    while len(hk) < 6 + nh:
        h = tuple(rng.randint(-box, box) for _ in range(3))
        if h != (0, 0, 0):
            hk.add(h)
    common.write_data_module(wd, name, {"Metrics": common.TlaSet([list(m) for m in metrics]), "Hkls": common.TlaSet([list(h) for h in sorted(hk)])})


def run(tier, seed):
    warnings.simplefilter("ignore")
    v = common.Verdict("C01", tier, seed)
    wd = common.workdir("C01")
    rng = random.Random(seed)
    intcells = integer_cells(rng, 12 if tier == "quick" else 80)
    cases_module(wd, rng, tier, box=3 if tier == "quick" else 6, metrics=sorted(intcells))
    r = common.run_tlc("Cell", "MC_Cell.cfg" if tier == "quick" else "MC_Cell_thorough.cfg", wd, timeout=3000, heap="16g")
    if r.violated:
        raise common.MachineryError("Cell.tla: model-level identity violated: %s" % r.violated)
    recs = r.records
    u3 = rng.uniform(3.0, 40.0)
    # the last two scales are nearly equal (3e-6 apart): a result cached "for the same cell" with a tolerance would be reused
    us = [1.0, rng.uniform(0.3, 3.0), u3, u3 * (1 + 3e-6)]
    # extreme but legitimate sizes: cell edges of a fraction of an Angstrom and of several hundred Angstrom
    us_extreme = [rng.uniform(0.005, 0.02), rng.uniform(5e3, 3e4)]
    if tier == "thorough" and len(recs) > 300000:
        recs = rng.sample(recs, 300000)
    # nearly orthogonal cells (angles within 0.003 degree of 90, not equal to it): metric entries of 1e5 do not fit TLC's integers;
    # the same exact formulas are evaluated with unbounded integers (identities proved for all integers by Apalache)
    paths = sorted(set(tuple(x["path"]) for x in recs))
    hk = [q[0] for q in recs[0]["q"]] if recs else [[1, 0, 0]]
    near = []
    for _ in range(25 if tier == "quick" else 400):
        n1, n2, n3 = [rng.choice([40000, 62500, 90000, 250000]) + rng.randint(0, 9) for _ in range(3)]
        offs = [rng.choice([-2, -1, 1, 2]), rng.choice([-2, -1, 0, 1, 2, n2 // 3]), rng.choice([-1, 0, 1])]
        rng.shuffle(offs)
        G = [n1, n2, n3] + offs
        import genhkl_lib as _gl
        if not (_gl.spd(G) and _gl.gram_ok(G)):
            continue
        for pth in rng.sample(paths, min(6, len(paths))):
            near.append(L.exact_metric_record(G, hk, pth))
    recs = recs + near
    for x in recs:
        if tuple(x["G"]) in intcells:
            x["intcell"] = intcells[tuple(x["G"])]
    res = common.pmap(worker, [(x, us if k % 7 else us + us_extreme) for k, x in enumerate(recs)])
    ncalls = 0
    metrics = set()
    for x, (n, out) in zip(recs, res):
        ncalls += n
        metrics.add(tuple(x["G"]))
        v.case((tuple(x["G"]), tuple(x["path"])),
               sample={"metric": x["G"], "path": x["path"], "det": x["det"], "cell_u1": L.cell_from_metric(x["G"], 1.0)}
               if len(v.samples) < 3 and x["G"][3] != 0 and x["G"][5] != 0 else None)
        for o in out[:2]:
            v.violation(o, {"metric": x["G"], "path": x["path"], "scales": us})
    if v.violations:
        seen = {}
        for q in v.violations:
            seen.setdefault(q["what"].split("(")[0][:50] + ("tools" if "xfab.tools" in q["what"] else "laue"), q)
        v.notes.append("%d violating observations collapsed to %d" % (len(v.violations), len(seen)))
        v.violations = list(seen.values())
    cov = {"states": r.distinct, "transitions": r.generated, "traces_validated_against_impl": len(recs),
           "metrics": len(metrics), "nearly_orthogonal_bigint_behaviours": len(near), "function_calls": ncalls, "scales": us, "exhaustive": False,
           "rule": "behaviour = (integer metric tensor, path through the representation graph); all valid metrics of the "
                   "configured box x all paths of the configured depth; each replayed in tools and laue for 3 scale factors"}
    if tier == "thorough":
        common.apalache_obligations(wd, ["AdjugateInverse"], cov)
    return v.finish("model_checking", cov, ASSUME)


def replay(path, seed):
    import json
    common.use_repo()
    c = json.load(open(path))["case"]
    rec = {"G": c["metric"], "path": c["path"], "det": 0, "adj": [0] * 6, "q": []}
    print("replay needs the exact values: re-running the quick check")
    return run("quick", seed)
