"""Shared code (not artefacts) for the reflection-generation checks C05, C06 and the C14 differential."""
import math
import random

import common

# finding ids
F_EARLY = "genhkl-early-exit"


def spd(m):
    g11, g22, g33, g23, g13, g12 = m
    if g11 <= 0 or g11 * g22 - g12 * g12 <= 0:
        return False
    return det6(m) > 0


def det6(m):
    g11, g22, g33, g23, g13, g12 = m
    return g11 * (g22 * g33 - g23 * g23) - g12 * (g12 * g33 - g23 * g13) + g13 * (g12 * g23 - g22 * g13)


def gram_ok(m):
    """Gram bound of C01's quantifier: det >= 0.02 * g11 g22 g33"""
    return 50 * det6(m) >= m[0] * m[1] * m[2]


def conforming_metrics(system, choice, rng, n, oblique=True):
    """n integer RECIPROCAL metric tensors <<g11,g22,g33,g23,g13,g12>> conforming to the crystal system
    and setting; the first is (near-)orthogonal where the system allows, later ones oblique."""
    out = []
    tries = 0
    while len(out) < n and tries < 10000:
        tries += 1
        k = len(out)
        a, b, c = rng.sample([4, 5, 6, 7, 8, 9], 3)
        if system == "triclinic":
            if k == 0:
                m = [a, b, c, 0, 0, 0]
            else:
                m = [a, b, c, rng.randint(-3, 3), rng.randint(-3, 3), rng.randint(-3, 3)]
                if m[3] == 0 and m[4] == 0 and m[5] == 0:
                    continue
        elif system == "monoclinic":
            m = [a, b, c, 0, 0 if k == 0 else rng.choice([-3, -2, -1, 1, 2, 3]), 0]
        elif system == "orthorhombic":
            m = [a, b, c, 0, 0, 0]
        elif system == "tetragonal":
            m = [a, a, c, 0, 0, 0]
        elif system in ("trigonal", "hexagonal") and choice != "rhombohedral":
            mm = rng.choice([2, 3, 4])
            m = [2 * mm, 2 * mm, rng.choice([3, 4, 5, 7]), 0, 0, mm]
        elif system == "trigonal" and choice == "rhombohedral":
            mm = rng.choice([5, 6, 7, 8])
            q = rng.choice([x for x in range(-mm // 2 + 1, mm - 1) if x != 0])
            m = [mm, mm, mm, q, q, q]
        elif system == "cubic":
            m = [a, a, a, 0, 0, 0]
        else:
            raise common.MachineryError("unknown crystal system %r" % system)
        if not spd(m) or not gram_ok(m):
            continue
        if m in out and tries < 5000:
            continue
        out.append(m)
    if len(out) < n:
        raise common.MachineryError("cannot draw %d conforming metrics for %s/%s" % (n, system, choice))
    return out


def long_axis_metric(system, choice, rng):
    """a conforming reciprocal metric with one very short reciprocal axis (long real axis), so that one index runs up to ~17
    (~9 for cubic) inside a shell of a few hundred reflections; returns (metric, K)"""
    big = rng.choice([30, 35, 40])
    if system in ("triclinic", "monoclinic", "orthorhombic"):
        m = [1, big, big + 7, 0, 0, 0]
        if system == "monoclinic":
            m[4] = rng.choice([-2, 2])
        if system == "triclinic":
            m[3], m[5] = rng.choice([-3, 3]), 0
        return m, 330
    if system == "tetragonal":
        return [big, big, 1, 0, 0, 0], 330
    if system in ("trigonal", "hexagonal") and choice != "rhombohedral":
        return [2 * 20, 2 * 20, 1, 0, 0, 20], 300
    if system == "trigonal":
        return [6, 6, 6, 1, 1, 1], 330          # indices up to ~8
    return [3, 3, 3, 0, 0, 0], 250                # cubic: indices up to 9


def shell_for(m, target, rng):
    """K such that the ellipsoid Q*<=K holds about `target` lattice points; Kmin 0 or about K/4."""
    d = det6(m)
    K = int(round((target * math.sqrt(d) / 4.18879) ** (2.0 / 3.0)))
    K = max(K, 8)
    # 0 (everything), a lower bound between occupied shells, or a THIN shell holding only Q* = K (often one family, sometimes none)
    Kmin = rng.choice([0, 0, max(1, K // 4), max(1, K // 3), K - 1])
    return K, Kmin


def cell_from_recip_metric(m, c):
    """float cell whose reciprocal metric tensor (no 2pi) is c * Sym(m)"""
    import numpy as np
    g11, g22, g33, g23, g13, g12 = m
    Gs = c * np.array([[g11, g12, g13], [g12, g22, g23], [g13, g23, g33]], dtype=float)
    G = np.linalg.inv(Gs)
    a, b, cc = math.sqrt(G[0, 0]), math.sqrt(G[1, 1]), math.sqrt(G[2, 2])
    al = math.degrees(math.acos(G[1, 2] / b / cc))
    be = math.degrees(math.acos(G[0, 2] / a / cc))
    ga = math.degrees(math.acos(G[0, 1] / a / b))
    import lattice_lib as _L
    return _L.snap_cell([a, b, cc, al, be, ga])


def bounds(K, Kmin, c, tight=0):
    """float sintl bounds for the shell Kmin < Q* <= K.  tight = 0: at half-integers of Q*.  tight = 1..4: 1e-7 (relative, in
    sin(theta)/lambda) away from an occupied shell - still a hundred times the distance the property's quantifier asks for:
      1: lower bound just ABOVE the shell Q* = Kmin (it stays out)     2: lower bound just BELOW the shell Q* = Kmin + 1 (it stays in)
      3: upper bound just ABOVE the shell Q* = K (it stays in)         4: upper bound just BELOW the shell Q* = K + 1 (it stays out)
    The set of reflections is the same in all five cases."""
    e = 2e-7
    qmax = {3: K * (1 + e), 4: (K + 1) * (1 - e)}.get(tight, K + 0.5)
    qmin = {1: Kmin * (1 + e), 2: (Kmin + 1) * (1 - e)}.get(tight, Kmin + 0.5)
    smax = math.sqrt(c * qmax / 4.0)
    smin = math.sqrt(c * qmin / 4.0) if Kmin > 0 else (0.0 if tight != 2 else math.sqrt(c * (1 - e) / 4.0))
    return smin, smax


def make_instances(tabs, rng, per_setting, target, only=None, long_every=0):
    inst = []
    for i, t in enumerate(tabs):
        if only is not None and (t["no"], t["setting"]) not in only:
            continue
        ms = conforming_metrics(t["crystal_system"], t["cell_choice"], rng, per_setting)
        for j, m in enumerate(ms):
            K, Kmin = shell_for(m, target, rng)
            if j == 0:
                # the first instance of every table is a FULL shell (from the origin outwards, twice as many lattice points): the
                # low-order axial and zonal reflections are what most of the 26 reflection-condition slots speak about
                K, _ = shell_for(m, 2 * target, rng)
                Kmin = 0
            inst.append({"t": i + 1, "met": m, "K": K, "Kmin": Kmin})
        if long_every and t["crystal_system"] == "orthorhombic" and i % 5 == 0:
            # pseudo-tetragonal orthorhombic cell: exact ties between inequivalent reflections (h,k,l) / (k,h,l); the float cell is
            # then detuned by 4e-8 so that the ties become NEAR-ties whose true order is known exactly
            mm = rng.choice([4, 5, 6])
            m = [mm, mm, rng.choice([7, 9, 11]), 0, 0, 0]
            K, Kmin = shell_for(m, target, rng)
            inst.append({"t": i + 1, "met": m, "K": K, "Kmin": 0, "pseudo": 1})
        if long_every and (i % long_every == 0 or t["setting"] == "rhombohedral"):
            m, K = long_axis_metric(t["crystal_system"], t["cell_choice"], rng)
            if spd(m):
                inst.append({"t": i + 1, "met": m, "K": K, "Kmin": rng.choice([0, K // 2]), "long": 1})
    return inst


def rows_to_int(H, ncol_expected=None):
    """float rows -> list of int triples (None if any index is not an integer within 1e-9)"""
    import numpy as np
    H = np.asarray(H, dtype=float)
    if H.size == 0:
        return []                      # an empty shell is a legitimate answer
    if H.ndim != 2 or H.shape[1] < 3:
        return None
    hk = H[:, :3]
    r = np.rint(hk)
    if hk.size and np.abs(hk - r).max() > 1e-9:
        return None
    return [tuple(int(x) for x in row) for row in r]


def call_gen(a):
    """worker: (module, func, cell, smin, smax, kw, npseed, output_stl) -> rows or error text"""
    modname, func, cell, smin, smax, kw, npseed, ostl = a
    import importlib
    import numpy as np
    import warnings
    warnings.simplefilter("ignore")
    mod = importlib.import_module("xfab." + modname)
    st = np.random.get_state()
    try:
        np.random.seed(npseed)
        # the same numbers in the containers / integer types the API accepts
        kw = dict(kw)
        if "sgno" in kw and npseed % 3 == 0:
            kw["sgno"] = np.int64(kw["sgno"])
        cell = [list, lambda c: np.array(c, dtype=float)][npseed % 2](cell)      # documented: a list; arrays are what callers pass
        # a related but different request first, in the same process, result discarded: a memo keyed too coarsely (without sintlmin,
        # without the group, without output_stl ...) then answers the real request with the list of the earlier one
        pre = (npseed // 7) % 6
        try:
            if pre == 1:
                getattr(mod, func)(cell, 0.0 if smin > 0 else 0.6 * smax, smax, output_stl=ostl, **kw)
            elif pre == 2:
                getattr(mod, func)(cell, smin, 1.25 * smax, output_stl=ostl, **kw)
            elif pre == 3:
                getattr(mod, func)(cell, smin, smax, output_stl=not ostl, **kw)
            elif pre == 4:
                getattr(mod, func)([x * 1.0000001 if j < 3 else x for j, x in enumerate(list(cell))], smin, smax, output_stl=ostl, **kw)
            elif pre == 5 and "sgno" in kw:
                getattr(mod, func)(cell, smin, 0.5 * smax, output_stl=ostl, sgno=1)
            elif pre == 0 and npseed % 2 == 1:
                # the caller's cell OBJECT is reused: first it holds a slightly different cell, then it is updated in place to the real
                # one (a refinement loop does exactly this) - what was derived from the object before must not be reused
                real = [float(x) for x in cell]
                for j in range(3):
                    cell[j] = real[j] * 1.013
                getattr(mod, func)(cell, smin, smax, output_stl=ostl, **kw)
                for j in range(6):
                    cell[j] = real[j]
        except Exception:
            pass
        # the generator may return ANY numbers: every few calls the projection vector drawn for the de-duplication has two components
        # that agree to 2e-9 (relative) - a legal draw for which the projections of (h,k,l) and (k,h,l) differ by 1e-9 only; exact
        # comparison of the projections keeps them apart, a rounded or tolerance-based one merges them
        real_rand = np.random.rand
        if (npseed // 11) % 4 == 0:
            base = [0.6180339887498949, 0.6180339887498949 * (1 + 2e-9), 0.3141592653589793]
            kperm = (npseed // 44) % 3
            vec = np.array([base[(j + kperm) % 3] for j in range(3)])

            def rand_(*shape):
                if shape == (3,):
                    return vec.copy()
                return real_rand(*shape)
            np.random.rand = rand_
        # the flag as callers produce it: a Python bool, a numpy bool (the result of a comparison), 0 / 1
        flag = [ostl, np.bool_(ostl), int(ostl), ostl][(npseed // 5) % 4]
        H = getattr(mod, func)(cell, smin, smax, output_stl=flag, **kw)
        return np.asarray(H, dtype=float).tolist()
    except Exception as ex:
        return "EXC " + repr(ex)
    finally:
        try:
            np.random.rand = real_rand
        except NameError:
            pass
        np.random.set_state(st)


def expand(tab, U):
    """orbits of U under rot[:nuniq] and inversion, as a multiset list (each orbit de-duplicated)"""
    import numpy as np
    rots = [np.array(r) for r in tab["rot"][: tab["nuniq"]]]
    out = []
    for h in U:
        hv = np.array(h)
        orb = set()
        for R in rots:
            g = hv.dot(R)
            orb.add(tuple(int(x) for x in g))
            orb.add(tuple(int(-x) for x in g))
        out.extend(sorted(orb))
    return out
