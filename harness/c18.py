"""C18 - reduce_cell returns a primitive cell of the same lattice.

TLC (spec/ReduceCell.tla) runs the sort-then-pick machine on integer direct metrics with ties left nondeterministic
and emits every possible outcome (three index vectors, the exact new metric V'GV, det V).  The real reduce_cell must
return the cell of one allowed outcome.  Named deviation 'rows stored, columns read': the code hands the matrix whose
ROWS are the reduced vectors to a_to_cell, which reads columns - recognised exactly and listed as a known finding.
"""
import collections
import random
import warnings

import common
import genhkl_lib as gl
import lattice_lib as L

F_ROWS = "reduce-cell-rows-as-columns"
ASSUME = [
    "metrics are integer; instances where some outcome of the search is not unimodular (reduced basis outside |u|,|v|,|w| <= 2) are outside "
    "the property's quantifier and are skipped (counted)",
    "the order of equal-length vectors after argsort is not part of the contract: any allowed outcome is accepted",
]


def unimodular(rng):
    import numpy as np
    M = np.eye(3, dtype=int)
    for _ in range(rng.randint(1, 3)):
        i, j = rng.sample([0, 1, 2], 2)
        E = np.eye(3, dtype=int)
        E[i, j] = rng.choice([-1, 1])
        M = M.dot(E)
    if rng.random() < 0.3:
        P = np.eye(3, dtype=int)[:, rng.sample([0, 1, 2], 3)]
        M = M.dot(P)
    return M


def draw_metrics(rng, n):
    import numpy as np
    out = set()
    while len(out) < n:
        g0 = [rng.choice([4, 5, 6, 7, 9, 11]) for _ in range(3)] + [rng.randint(-2, 2) for _ in range(3)]
        if not (gl.spd(g0) and gl.gram_ok(g0)):
            continue
        if rng.random() < 0.35:
            m = g0
        else:
            M = unimodular(rng)
            Gm = M.T.dot(np.array([[g0[0], g0[5], g0[4]], [g0[5], g0[1], g0[3]], [g0[4], g0[3], g0[2]]])).dot(M)
            m = [int(Gm[0, 0]), int(Gm[1, 1]), int(Gm[2, 2]), int(Gm[1, 2]), int(Gm[0, 2]), int(Gm[0, 1])]
        if gl.spd(m) and 200 * gl.det6(m) >= m[0] * m[1] * m[2]:       # keep acos arguments away from +-1
            out.add(tuple(m))
    # cells that LOOK reduced: a <= b <= c and no axis gets shorter when another axis is added or subtracted (the pairwise Buerger
    # conditions), but all angles obtuse and the body diagonal a+b+c shorter than c - the one condition a pairwise test forgets
    look = []
    for a in (4, 5, 6, 7):
        for b in range(a, 10):
            for c in range(b, 12):
                for d in range(-(b // 2), 0):
                    for e in range(-(a // 2), 0):
                        for f in range(-(a // 2), 0):
                            m = [a, b, c, d, e, f]
                            if a + b + c + 2 * (d + e + f) < c and gl.spd(m) and 200 * gl.det6(m) >= a * b * c:
                                look.append(m)
    # lattices whose two shortest vectors have a cross product with components that cancel ((0, 6, -6): a along x, c = (0, k, k)): a
    # collinearity test on the SUM of the components takes them for parallel
    for m in ([9, 25, 8, 10, 0, 0], [9, 8, 25, 10, 0, 0], [16, 49, 18, 21, 0, 0], [25, 36, 8, 12, 0, 0]):
        if gl.spd(m) and 200 * gl.det6(m) >= m[0] * m[1] * m[2]:
            out.add(tuple(m))
    rng.shuffle(look)
    for m in look[: max(12, n // 8)]:
        out.add(tuple(m))
    return [list(m) for m in sorted(out)]


def call(a):
    G, u, uvw = a
    import importlib
    import numpy as np
    res = {}
    cell = L.cell_from_metric(G, u)
    for modname in ("tools", "laue"):
        mod = importlib.import_module("xfab." + modname)
        try:
            # the default search range is uvw = 3; other values go through the optional argument
            if uvw == 3:
                r_, m_ = L.twice(mod.reduce_cell, list(cell) if modname == "tools" else np.array(cell))
            else:
                r_, m_ = L.twice(lambda c_, _m=mod, _u=uvw: _m.reduce_cell(c_, uvw=_u), list(cell))
            res[modname] = [float(x) for x in r_] if not m_ else "EXC " + m_
        except Exception as ex:
            res[modname] = "EXC " + repr(ex)
    return cell, res


def run(tier, seed, pid="C18"):
    warnings.simplefilter("ignore")
    import numpy as np
    v = common.Verdict(pid, tier, seed)
    wd = common.workdir(pid)
    rng = random.Random(seed + 18)
    metrics = draw_metrics(rng, 120 if tier == "quick" else 6000)
    cases = []
    for k, m in enumerate(metrics):
        cases.append([m, 3])
        if k % 4 == 0:
            cases.append([m, 2])
        if k % 10 == 0:
            cases.append([m, 4])
    common.write_data_module(wd, "ReduceCases", {"Metrics": common.TlaSet(cases)})
    r = common.run_tlc("ReduceCell", "MC_ReduceCell.cfg", wd, timeout=3000, heap="12g")
    if r.violated:
        raise common.MachineryError("ReduceCell.tla: %s violated" % r.violated)
    outcomes = collections.defaultdict(list)
    for x in r.records:
        outcomes[(tuple(x["G"]), x["uvw"])].append(x)
    # per-metric scale, log-uniform: small scales bring the squared lengths of different lattice vectors within 1 A^2
    todo = [(list(G), 10 ** rng.uniform(-0.9, 0.9), uvw) for (G, uvw) in sorted(outcomes)]
    res = common.pmap(call, todo, chunk=4)
    skipped = 0
    n_known = 0
    for (G, u, uvw), (cell, got) in zip(todo, res):
        outs = outcomes[(tuple(G), uvw)]
        if any(o["pc"] != "done" or abs(o["detV"]) != 1 for o in outs):
            skipped += 1           # search range too small for this metric: outside the quantifier
            continue
        wantA = [L.cell_from_metric(o["M"], u) for o in outs]
        A = np.linalg.cholesky(u * L.sym(G)).T            # upper triangular, A'A = uG (independent of the code)
        wantB = []
        for o in outs:
            R = (A.dot(np.array(o["V"], dtype=float).T)).T   # rows = reduced vectors in Cartesian coordinates
            g = R.T.dot(R)                                    # what a_to_cell computes when it reads columns
            try:
                import math
                a, b, c = math.sqrt(g[0, 0]), math.sqrt(g[1, 1]), math.sqrt(g[2, 2])
                wantB.append([a, b, c, math.degrees(math.acos(g[1, 2] / b / c)), math.degrees(math.acos(g[0, 2] / a / c)),
                              math.degrees(math.acos(g[0, 1] / a / b))])
            except Exception:
                pass
        for modname, c in got.items():
            desc = {"metric": G, "scale": u, "uvw": uvw, "cell": cell, "module": modname, "outcomes": [o["V"] for o in outs][:4], "returned": c}
            v.case((tuple(G), uvw, modname), sample=desc if len(v.samples) < 3 else None)
            if isinstance(c, str):
                v.violation("reduce_cell raised %s (xfab.%s, metric %s)" % (c, modname, G), desc)
                continue
            if any(L.cell_close(c, w, rel=1e-8) for w in wantA):
                continue
            if any(L.cell_close(c, w, rel=1e-8) for w in wantB) and v.is_listed(F_ROWS):
                v.known_finding(F_ROWS)
                n_known += 1
                continue
            v.violation("reduce_cell(%s) = %s is not the cell of any basis the shortest-vector search can return "
                        "(e.g. %s for index vectors %s) (xfab.%s, metric %s, uvw=%d)" %
                        ([round(x, 6) for x in cell], [round(x, 6) for x in c], [round(x, 6) for x in wantA[0]], outs[0]["V"], modname, G, uvw), desc)
    if v.violations:
        seen = {}
        for q in v.violations:
            seen.setdefault(q["case"]["module"], q)
        v.notes.append("%d violating calls collapsed to %d" % (len(v.violations), len(seen)))
        v.violations = list(seen.values())
    cov = {"states": r.distinct, "transitions": r.generated, "traces_validated_against_impl": 2 * (len(todo) - skipped),
           "metrics": len(todo), "outside_search_range_skipped": skipped, "outcomes": len(r.records),
           "rows_as_columns_met": n_known, "exhaustive": False,
           "rule": "metric = small reduced integer metric, 65% transformed by a random unimodular change of basis; all tie orders explored by TLC"}
    return v.finish("model_checking", cov, ASSUME)


def replay(path, seed):
    return run("quick", seed)
