"""C03 - every orientation parametrisation yields a proper rotation and inverts exactly.

TLC (spec/Rotation.tla): each builder is DEFINED as the documented composition of elementary rotations over
Pythagorean angles (exact integers); orthonormality and determinant are checked in the model and the exact matrix
is emitted; the real builders of both modules are compared with it.  u_to_euler / u_to_rod are run on every lattice
matrix (incl. PHI exactly 0 or pi and axis-aligned ones).  spec/Gimbal.tla enumerates the magnitude classes of the
near-gimbal band; there the property itself is the oracle (angles in range, rebuild within 1e-6).
"""
import math
import random
import warnings

import common
import lattice_lib as L

ASSUME = [
    "angles are Pythagorean (cos, sin rational); floats handed to the code are atan2(s,c) (mod 2pi where the API demands [0,2pi])",
    "builders compared at 1e-12 absolute; inverses by rebuilding the input matrix within the property's 1e-6",
    "near-gimbal band: magnitude classes concretised by the harness, matrix built by the harness' own Rz.Rx.Rz product",
]

TRIPLES = [(3, 4, 5), (5, 12, 13), (8, 15, 17), (7, 24, 25), (20, 21, 29)]
SMALL = [(24, 7, 25), (63, 16, 65), (12, 5, 13), (15, 8, 17), (99, 20, 101)]     # |angle| <= 0.5 rad


def all_angles():
    A = {(1, 0, 1), (0, 1, 1), (-1, 0, 1), (0, -1, 1)}
    for (a, b, d) in TRIPLES:
        for (x, y) in ((a, b), (b, a)):
            for sx in (1, -1):
                for sy in (1, -1):
                    A.add((sx * x, sy * y, d))
    return sorted(A)


def small_angles():
    A = {(1, 0, 1)}
    for (c, s, d) in SMALL:
        A.add((c, s, d))
        A.add((c, -s, d))
    return sorted(A)


def ang(a, positive=False):
    t = math.atan2(a[1], a[0])
    if positive and t < 0:
        t += 2 * math.pi
    return t


def Rz(t):
    import numpy as np
    return np.array([[math.cos(t), -math.sin(t), 0], [math.sin(t), math.cos(t), 0], [0, 0, 1.0]])


def Ry(t):
    import numpy as np
    return np.array([[math.cos(t), 0, math.sin(t)], [0, 1.0, 0], [-math.sin(t), 0, math.cos(t)]])


def Rx(t):
    import numpy as np
    return np.array([[1.0, 0, 0], [0, math.cos(t), -math.sin(t)], [0, math.sin(t), math.cos(t)]])


def case(kind, a=(), p=(0, 0, 0), q=1):
    return {"kind": kind, "a": [list(x) for x in a], "p": list(p), "q": q}


def make_cases(rng, tier):
    A, S = all_angles(), small_angles()
    n = 12 if tier == "quick" else 24
    cases = []
    sub = rng.sample(A, min(n, len(A)))
    gim = [(1, 0, 1), (-1, 0, 1)]
    for a1 in sub:
        for a2 in sub[: max(6, n // 2)] + gim:
            for a3 in sub[: max(6, n // 2)] + [(1, 0, 1), (0, 1, 1)]:
                cases.append(case("euler", (a1, a2, a3)))
    for a1 in A:
        cases.append(case("omega", (a1,)))
    for a1 in rng.sample(A, 8 if tier == "quick" else len(A)):
        for a2 in S:
            for a3 in S:
                cases.append(case("general", (a1, a2, a3)))
                if a2[2] * a3[2] <= 65 * 5:
                    cases.append(case("quart", (a1, a2, a3)))
    Z = (1, 0, 1)
    for a1 in A:
        for (a2, a3) in ((Z, Z), (Z, S[1]), (S[-1], Z)):
            cases.append(case("general", (a1, a2, a3)))
            cases.append(case("quart", (a1, a2, a3)))
            cases.append(case("tilt", (a1, a2, a3)))
    T = rng.sample(A, 6) + S
    for a1 in T:
        for a2 in T[:8]:
            for a3 in T[3:11]:
                cases.append(case("tilt", (a1, a2, a3)))
    rods = set()
    while len(rods) < (400 if tier == "quick" else 8000):
        big = rng.choice([3, 6, 30, 1000])
        p = tuple(rng.randint(-big, big) for _ in range(3))
        q = rng.choice([1, 1, 2, 3, 7])
        if p != (0, 0, 0) and max(abs(x) for x in p) / q <= 1000:
            rods.add((p, q))
    # rotation angles between 179.94 and 179.994 degrees (|r| = 2000 .. 19000): u_to_rod must still rebuild the matrix
    while len(rods) < (430 if tier == "quick" else 8300):
        big = rng.choice([2000, 6000, 19000])
        p = tuple(rng.randint(-big, big) for _ in range(3))
        if sum(x * x for x in p) >= 2000 ** 2 and sum(x * x for x in p) < 1000000000:
            rods.add((p, 1))
    for (p, q) in sorted(rods):
        cases.append(case("rod", (), p, q))
    cases.append(case("rod", (), (0, 0, 0), 1))
    # de-duplicate
    seen, out = set(), []
    for c in cases:
        k = repr(c)
        if k not in seen:
            seen.add(k)
            out.append(c)
    return out


def worker(x):
    """every fourth case runs with the input checks switched off (euler cases excepted: they toggle the switch themselves)"""
    off = x["den"] % 4 == 1 and x["cs"]["kind"] != "euler"
    with L.switch_off(off):
        n, out = _worker(x)
    return n, ([o + " [input checks switched off]" for o in out] if off else out)


def _worker(x):
    """compare the real builders / inverses with the exact matrix of one case"""
    import importlib
    import numpy as np
    cs = x["cs"]
    ex = np.array(x["N"], dtype=float) / float(x["den"])
    out = []
    n = 0
    for modname in ("tools", "laue"):
        mod = importlib.import_module("xfab." + modname)
        tag = "xfab.%s %s" % (modname, {k: cs[k] for k in ("kind", "a", "p", "q")})

        def G(f, *args):
            r, m_ = L.twice(f, *args)
            if m_:
                out.append(m_ + " (%s)" % tag)
            return r
        try:
            k = cs["kind"]
            # "for all real arguments": the non-Euler builders are also called with the angle shifted by multiples of 2 pi
            sh = [0.0, 2 * math.pi, -2 * math.pi, 4 * math.pi, -6 * math.pi]
            j = (x["den"] + len(cs["a"])) % 5
            s1, s2, s3 = sh[j], sh[(j + 2) % 5], sh[(j + 3) % 5]
            if k == "euler":
                a = [ang(t, True) for t in cs["a"]]
                M = G(mod.euler_to_u, *a)
                if x["den"] % 3 == 0:
                    # "for all real arguments": outside [0, 2pi] the input check refuses the call, so the composition is compared
                    # with the switch off (and the switch is restored)
                    import xfab
                    was = xfab.CHECKS.activated
                    try:
                        xfab.CHECKS.activated = False
                        M2 = np.asarray(mod.euler_to_u(a[0] + s1, a[1] + s2, a[2] - abs(s3)), dtype=float)
                    finally:
                        xfab.CHECKS.activated = was
                    if not (np.abs(M2 - ex).max() <= 2e-11):
                        out.append("euler_to_u with angles shifted by multiples of 2 pi (checks off) differs from Rz.Rx.Rz by %.3g (%s)" %
                                   (float(np.abs(M2 - ex).max()), tag))
            elif k == "omega":
                M = G(mod.form_omega_mat, ang(cs["a"][0]) + s1)
            elif k == "general":
                M = G(mod.form_omega_mat_general, ang(cs["a"][0]) + s1, ang(cs["a"][1]) + s2, ang(cs["a"][2]) + s3)
            elif k == "quart":
                M = G(mod.quart_to_omega, math.degrees(ang(cs["a"][0]) + s1), ang(cs["a"][1]) + s2, ang(cs["a"][2]) + s3)
            elif k == "tilt":
                M = G(mod.detect_tilt, ang(cs["a"][0]) + s1, ang(cs["a"][1]) + s2, ang(cs["a"][2]) + s3)
            else:
                r = [v / cs["q"] for v in cs["p"]]
                bigrod = max(abs(t) for t in r) > 1000.0          # beyond the constructor's quantifier (|r| <= 1e3): only the inverse is claimed
                M = G(mod.rod_to_u, r) if not bigrod else ex
            M = np.asarray(M, dtype=float)
            n += 1
            # ... and with the angles exactly as constructed (exact zeros stay exact zeros: shortcuts for "no tilt" are taken)
            if k in ("omega", "general", "quart", "tilt"):
                a0 = [ang(t) for t in cs["a"]]
                M0 = {"omega": lambda: mod.form_omega_mat(a0[0]),
                      "general": lambda: mod.form_omega_mat_general(a0[0], a0[1], a0[2]),
                      "quart": lambda: mod.quart_to_omega(math.degrees(a0[0]), a0[1], a0[2]),
                      "tilt": lambda: mod.detect_tilt(a0[0], a0[1], a0[2])}[k]()
                M0 = np.asarray(M0, dtype=float)
                n += 1
                if M0.shape != (3, 3) or not np.all(np.isfinite(M0)) or not (np.abs(M0 - ex).max() <= 2e-11):
                    out.append("%s with the unshifted angles %s differs from the documented composition by %.3g (%s)" %
                               (k, a0, float(np.abs(M0 - ex).max()) if M0.shape == (3, 3) else -1, tag))
            if M.shape != (3, 3) or not np.all(np.isfinite(M)) or not (np.abs(M - ex).max() <= 1e-12 * (1 if k != "rod" else 10) * (20 if k in ("omega", "general", "quart", "tilt") else 1)):
                out.append("%s differs from the documented composition of elementary rotations by %.3g (%s)" %
                           ({"euler": "euler_to_u", "omega": "form_omega_mat", "general": "form_omega_mat_general",
                             "quart": "quart_to_omega", "tilt": "detect_tilt", "rod": "rod_to_u"}[k],
                            float(np.abs(M - ex).max()) if M.shape == (3, 3) else -1, tag))
            if not (np.abs(M.T.dot(M) - np.eye(3)).max() <= 1e-9) or not (abs(np.linalg.det(M) - 1) <= 1e-9):
                out.append("builder result is not a proper rotation (%s)" % tag)
            # inverses on the exact lattice matrix
            if k in ("euler", "tilt", "general", "rod"):
                n += 1
                e = np.asarray(G(mod.u_to_euler, ex), dtype=float)
                if not (np.all(e >= 0) and e[0] <= 2 * math.pi and e[2] <= 2 * math.pi and e[1] <= math.pi):
                    out.append("u_to_euler returned angles %s outside [0,2pi]x[0,pi]x[0,2pi] (%s)" % (e.tolist(), tag))
                else:
                    Rb = Rz(e[0]).dot(Rx(e[1])).dot(Rz(e[2]))
                    Rc = np.asarray(G(mod.euler_to_u, *e), dtype=float)
                    if not (np.abs(Rb - ex).max() <= 1e-6) or not (np.abs(Rc - ex).max() <= 1e-6):
                        out.append("u_to_euler angles %s rebuild the matrix with error %.3g > 1e-6 (%s)" %
                                   (e.tolist(), float(np.abs(Rb - ex).max()), tag))
            if k == "rod":
                n += 1
                r = np.asarray(G(mod.u_to_rod, ex), dtype=float)
                want = np.array(cs["p"], dtype=float) / cs["q"]
                if not np.all(np.isfinite(r)) or (np.abs(want).max() <= 1000 and not (np.abs(r - want).max() <= 1e-9 * max(1.0, np.abs(want).max() ** 3))) \
                        or (not (np.abs(want).max() <= 1000) and (np.sign(r) != np.sign(want)).any() and not (np.abs(r - want).max() <= 1e-3 * np.abs(want).max())):
                    out.append("u_to_rod gives %s, the Rodrigues vector is %s (%s)" % (r.tolist(), want.tolist(), tag))
                else:
                    Rb = np.asarray(G(mod.rod_to_u, r), dtype=float)
                    if not (np.abs(Rb - ex).max() <= 1e-6):
                        out.append("rod_to_u(u_to_rod(U)) differs from U by %.3g (%s)" % (float(np.abs(Rb - ex).max()), tag))
        except Exception as e_:
            out.append("exception %r (%s)" % (e_, tag))
    return n, out


def concretise(c, rng_vals):
    base, dec, sgn = c
    b = {"zero": 0.0, "halfpi": math.pi / 2, "pi": math.pi, "threehalfpi": 1.5 * math.pi, "twopi": 2 * math.pi,
         "generic1": rng_vals[0], "generic2": rng_vals[1]}[base]
    return b + (sgn * 10.0 ** (-dec) if dec > 0 else 0.0)


def halfturn_worker(a):
    """rotations 4e-3 .. 2e-6 degrees short of a half turn: Cayley matrices of integer Rodrigues vectors with |r| = 3e4 .. 6e7,
    formed with unbounded Python integers (the Cayley identities are proved for all integers by Apalache, spec/apalache/Identities.tla)
    and divided exactly.  The property's clause: u_to_rod returns a finite vector that rebuilds the matrix to 1e-6."""
    p = a
    from fractions import Fraction
    import importlib
    import numpy as np
    pp = sum(x * x for x in p)
    D = 1 + pp
    K = [[0, -p[2], p[1]], [p[2], 0, -p[0]], [-p[1], p[0], 0]]
    N = [[(1 - pp) * (1 if i == j else 0) + 2 * p[i] * p[j] + 2 * K[i][j] for j in range(3)] for i in range(3)]
    U = np.array([[float(Fraction(N[i][j], D)) for j in range(3)] for i in range(3)]).T      # the library's passive sense
    out = []
    ang = 180.0 - math.degrees(2 * math.atan(1.0 / math.sqrt(pp)))
    for modname in ("tools", "laue"):
        mod = importlib.import_module("xfab." + modname)
        tag = "xfab.%s rotation by 180 - %.3g degrees, Rodrigues vector %s" % (modname, 180.0 - ang, list(p))
        try:
            r, m_ = L.twice(mod.u_to_rod, U)
            if m_:
                out.append(m_ + " (%s)" % tag)
            r = np.asarray(r, dtype=float)
            if r.shape != (3,) or not np.all(np.isfinite(r)):
                out.append("u_to_rod returned %s for a rotation outside the excluded 1e-6 degree window (%s)" % (r.tolist(), tag))
                continue
            Rb = np.asarray(mod.rod_to_u(r), dtype=float)
            if not (np.abs(Rb - U).max() <= 1e-6):
                out.append("rod_to_u(u_to_rod(U)) differs from U by %.3g > 1e-6; u_to_rod gave |r| = %.6g, the rotation has |r| = %.6g (%s)" %
                           (float(np.abs(Rb - U).max()), float(np.sqrt(r.dot(r))), math.sqrt(pp), tag))
        except Exception as e_:
            out.append("exception %r (%s)" % (e_, tag))
    return 2, out


def gimbal_worker(a):
    x, gv = a
    import importlib
    import numpy as np
    p1, P, p2 = concretise(x["c1"], gv), concretise(x["cP"], gv), concretise(x["c2"], gv)
    M = Rz(p1).dot(Rx(P)).dot(Rz(p2))
    out = []
    for modname in ("tools", "laue"):
        mod = importlib.import_module("xfab." + modname)
        tag = "xfab.%s phi1=%r PHI=%r phi2=%r classes %s %s %s" % (modname, p1, P, p2, x["c1"], x["cP"], x["c2"])
        try:
            e, m_ = L.twice(mod.u_to_euler, M)
            e = np.asarray(e, dtype=float)
            if m_:
                out.append(m_ + " (%s)" % tag)
        except Exception as ex:
            out.append("u_to_euler raised %r on a proper rotation (%s)" % (ex, tag))
            continue
        if not (np.all(np.isfinite(e)) and np.all(e >= 0) and e[0] <= 2 * math.pi and e[2] <= 2 * math.pi and e[1] <= math.pi):
            out.append("u_to_euler returned angles %s outside [0,2pi]x[0,pi]x[0,2pi] (%s)" % (e.tolist(), tag))
            continue
        Rb = Rz(e[0]).dot(Rx(e[1])).dot(Rz(e[2]))
        err = float(np.abs(Rb - M).max())
        if err > 1e-6:
            out.append("u_to_euler angles %s rebuild the near-gimbal matrix with error %.3g > 1e-6 (%s)" % (e.tolist(), err, tag))
    return 2, out


def run(tier, seed):
    warnings.simplefilter("ignore")
    v = common.Verdict("C03", tier, seed)
    wd = common.workdir("C03")
    rng = random.Random(seed)
    cases = make_cases(rng, tier)
    common.write_data_module(wd, "RotCases", {"Cases": common.TlaSet(cases)})
    r = common.run_tlc("Rotation", "MC_Rotation.cfg", wd, timeout=3000, heap="12g")
    if r.violated:
        raise common.MachineryError("Rotation.tla: model-level identity violated: %s" % r.violated)
    res = common.pmap(worker, r.records)
    ncalls = 0
    kinds = {}
    for x, (n, out) in zip(r.records, res):
        ncalls += n
        k = x["cs"]["kind"]
        kinds[k] = kinds.get(k, 0) + 1
        v.case(repr(x["cs"]), sample={"case": x["cs"], "den": x["den"]} if kinds[k] == 3 else None)
        for o in out[:2]:
            v.violation(o, {"case": x["cs"], "N": x["N"], "den": x["den"]})
    # angles given as Python or numpy integers (0, 1, 2, 3, -1 radians; whole degrees for the quaternion builder): same matrices as for floats
    import importlib
    import numpy as np
    for modname in ("tools", "laue"):
        mod = importlib.import_module("xfab." + modname)
        for k_ in (0, 1, 2, 3, -1, np.int64(2), np.int32(-2)):
            for nm_, got_fn, want_ in (
                    ("form_omega_mat(%r)" % (k_,), lambda: mod.form_omega_mat(k_), Rz(float(k_))),
                    ("form_omega_mat_general(%r, 1, -1)" % (k_,), lambda: mod.form_omega_mat_general(k_, 1, -1),
                     Rx(1.0).dot(Ry(-1.0)).dot(Rz(float(k_)))),
                    ("detect_tilt(1, %r, 2)" % (k_,), lambda: mod.detect_tilt(1, k_, 2), Rx(1.0).dot(Ry(float(k_))).dot(Rz(2.0))),
                    ("euler_to_u(%r, 1, 2)" % (abs(int(k_)),), lambda: mod.euler_to_u(abs(int(k_)), 1, 2), Rz(float(abs(int(k_)))).dot(Rx(1.0)).dot(Rz(2.0))),
                    ("quart_to_omega(%r, 0, 0)" % (int(k_) * 30,), lambda: mod.quart_to_omega(int(k_) * 30, 0, 0), Rz(math.radians(int(k_) * 30))),
                    ("rod_to_u([%r, 0, 1])" % (k_,), lambda: mod.rod_to_u([k_, 0, 1]), None)):
                ncalls_ = 1
                try:
                    got_ = np.asarray(got_fn(), dtype=float)
                    if want_ is None:
                        want_ = np.asarray(mod.rod_to_u([float(k_), 0.0, 1.0]), dtype=float)
                    v.case(("int", modname, nm_))
                    if got_.shape != (3, 3) or not (np.abs(got_ - want_).max() <= 1e-12):
                        v.violation("xfab.%s.%s with integer-typed arguments differs from the same call with floats by %.3g" %
                                    (modname, nm_, float(np.abs(got_ - want_).max()) if got_.shape == (3, 3) else -1), {"call": nm_, "module": modname})
                except Exception as ex_:
                    v.violation("xfab.%s.%s raised %r for integer-typed arguments" % (modname, nm_, ex_), {"call": nm_, "module": modname})
    # rotations that are PRODUCTS of rotations (what a misorientation or a change of reference frame is): orthonormal to rounding, with
    # entries that exceed 1 by an ulp on either side - exactly at gimbal lock (R'.R), at PHI = pi (R'.R.Rx(pi)) and generic
    prods = []
    for _ in range(150 if tier == "quick" else 3000):
        Ra = Rz(rng.uniform(0, 6.28)).dot(Rx(rng.uniform(0, 3.14))).dot(Rz(rng.uniform(0, 6.28)))
        flip = np.diag([1.0, -1.0, -1.0])
        prods += [Ra.T.dot(Ra), Ra.T.dot(Ra).dot(Rz(rng.uniform(0, 6.28))), Ra.T.dot(Ra).dot(flip), Ra.T.dot(Rz(rng.uniform(0, 6.28))).dot(Ra)]
    for modname in ("tools", "laue"):
        mod = importlib.import_module("xfab." + modname)
        for Up in prods:
            ncalls += 1
            v.case(("product", modname, len(prods)))
            try:
                e = np.asarray(mod.u_to_euler(Up), dtype=float)
                ok_ = e.shape == (3,) and np.all(np.isfinite(e)) and np.all(e >= 0) and e[0] <= 2 * math.pi and e[1] <= math.pi and e[2] <= 2 * math.pi
                if ok_:
                    Rb = Rz(e[0]).dot(Rx(e[1])).dot(Rz(e[2]))
                    ok_ = np.abs(Rb - Up).max() <= 1e-6
                if not ok_:
                    v.violation("xfab.%s.u_to_euler of a product of rotations (U33 - 1 = %.2e, |U33| - 1 = %.2e) returns %s: not finite angles in range that "
                                "rebuild the matrix to 1e-6" % (modname, Up[2, 2] - 1, abs(Up[2, 2]) - 1, e.tolist()), {"U": Up.tolist(), "module": modname})
                    break
            except Exception as ex_:
                v.violation("xfab.%s.u_to_euler raised %r on a product of rotations (|U33| - 1 = %.2e)" % (modname, ex_, abs(Up[2, 2]) - 1),
                            {"U": Up.tolist(), "module": modname})
                break
    hts = []
    for size in (3e4, 1e5, 1e6, 1e7, 6e7):
        for _ in range(6 if tier == "quick" else 80):
            d_ = [rng.uniform(-1, 1) for _ in range(3)]
            nrm = math.sqrt(sum(x * x for x in d_)) or 1.0
            hts.append(tuple(int(round(size * x / nrm)) for x in d_))
        hts.append((int(size), 0, 0))
        hts.append((0, -int(size), 1))
    for p_, (n, out) in zip(hts, [halfturn_worker(p_) for p_ in hts]):
        ncalls += n
        v.case(("halfturn", p_), sample={"rodrigues_vector": list(p_)} if p_[1] == 0 and p_[2] == 0 and len(v.samples) < 9 else None)
        for o in out[:2]:
            v.violation(o, {"rodrigues_vector": list(p_)})
    rg = common.run_tlc("Gimbal", "MC_Gimbal.cfg" if tier == "quick" else "MC_Gimbal_thorough.cfg", wd, timeout=3000)
    gv = (rng.uniform(0.3, 1.2), rng.uniform(3.5, 6.0))
    res = common.pmap(gimbal_worker, [(x, gv) for x in rg.records])
    predicted = 0
    for x, (n, out) in zip(rg.records, res):
        ncalls += n
        predicted += 1 if x["abszero"] else 0
        v.case(("gimbal", repr((x["c1"], x["cP"], x["c2"]))),
               sample={"gimbal_classes": [x["c1"], x["cP"], x["c2"]]} if x["abszero"] and len(v.samples) < 8 else None)
        for o in out[:1]:
            v.violation(o, {"classes": [x["c1"], x["cP"], x["c2"]], "generic": gv, "abs_zeroing_model_predicts_failure": x["abszero"]})
    if v.violations:
        seen = {}
        for q in v.violations:
            seen.setdefault(q["what"].split("(")[0][:45] + ("tools" if "xfab.tools" in q["what"] else "laue"), q)
        v.notes.append("%d violating observations collapsed to %d" % (len(v.violations), len(seen)))
        v.violations = list(seen.values())
    cov = {"states": r.distinct + rg.distinct, "transitions": r.generated + rg.generated,
           "traces_validated_against_impl": len(r.records) + len(rg.records), "cases_by_builder": kinds,
           "gimbal_classes": len(rg.records), "classes_where_the_repaired_abs_zeroing_would_fail": predicted,
           "function_calls": ncalls, "exhaustive": False,
           "rule": "case = builder x Pythagorean angle arguments (exact matrix from TLC), Rodrigues vectors up to |r| = 1000; inverses on "
                   "every lattice matrix; near-gimbal: full product of magnitude classes (PHI = 0/pi +- 1e-1..1e-13)"}
    if tier == "thorough":
        common.apalache_obligations(wd, ["CayleyOrthogonal"], cov)
    return v.finish("model_checking", cov, ASSUME)


def replay(path, seed):
    return run("quick", seed)
