"""C05 - genhkl_all returns exactly the reflections the space group allows in the shell.

TLC (spec/GenHkl.tla) computes, per (setting, integer reciprocal metric, shell):
  A  = Allowed, from the group's own operators (the requirement)
  the asymmetric-unit lists without early exit under both extinction tests, their soundness,
  where the 26-slot table and the operators disagree (with the slot), and
  B  = the traversal machine exactly as coded (early exit, first-visit skip), in two variants.
The real genhkl_all is called on the float image of every instance (by number and by name, in
tools and laue, under different numpy RNG seeds) and compared with A.  B only serves to recognise
the listed known finding (early exit) precisely.
"""
import collections
import random
import warnings

import common
import export
import genhkl_lib as gl

ASSUME = [
    "cells are the float images of integer reciprocal metric tensors conforming to the crystal system/setting; "
    "shell bounds sit at half-integers of Q* so no lattice point is within 1e-9 of a bound",
    "the requirement (Allowed) is computed by TLC from the exported operator tables (C04's subject)",
    "the traversal model B is consulted only to classify a mismatch as the listed known finding, never for a pass",
]


def build(tier, seed, pid):
    wd = common.workdir(pid)
    tabs, dic = export.write_tables_module(wd)
    rng = random.Random(seed * 7919 + 5)
    if tier == "quick":
        inst = gl.make_instances(tabs, rng, 2, 220, long_every=7)       # + long-axis cells: indices up to 17
    else:
        inst = gl.make_instances(tabs, rng, 5, 420, long_every=2)
    # deep shells: the second and third segments of the traversal tables, and the steps inside a segment, only matter from indices
    # of 2..3 upwards ((2,3,0) is the first reflection the second segment of Laue class -3 contributes that nothing else reaches);
    # per Laue class / setting / crystal system, tables are given a shell of about 1500 lattice points
    classes = collections.OrderedDict()
    for i, t in enumerate(tabs):
        classes.setdefault((t["Laue"], t["cell_choice"] == "rhombohedral", t["crystal_system"]), []).append(i)
    for key, idx in classes.items():
        chosen = [idx[0], rng.choice(idx)] if tier == "quick" else sorted(set([idx[0]] + rng.sample(idx, min(8, len(idx)))))
        for i in chosen:
            t = tabs[i]
            m = gl.conforming_metrics(t["crystal_system"], t["cell_choice"], rng, 1)[0]
            K, _ = gl.shell_for(m, 1500 if tier == "quick" else 3000, rng)
            inst.append({"t": i + 1, "met": m, "K": K, "Kmin": 0, "deep": 1})
    # far shells: a slice a few per cent thick at a radius where indices reach 15..20 in every direction (the reflections a
    # high-resolution data set adds last).  Anything that identifies a reflection by a short key - a weighted sum of its indices, a
    # byte, a rounded sintl - first collides out here: 16 + 31.15 = -15 + 31.16
    if pid == "C05":
        far = [k_ for k_ in classes if not k_[1] and k_[0] in ("4/m", "-3", "6/m", "m-3", "mmm")]
        for key in (far if tier == "thorough" else far[:3]):
            i = classes[key][0]
            t = tabs[i]
            m = gl.conforming_metrics(t["crystal_system"], t["cell_choice"], rng, 1)[0]
            # the shell around the reflection (16, 15, 0): Q* from 0.93 to 1.05 of its value
            q0 = 256 * m[0] + 225 * m[1] + 480 * m[5]
            inst.append({"t": i + 1, "met": m, "K": (q0 * 105) // 100, "Kmin": (q0 * 93) // 100, "far": 1})
    # needle cells: one reciprocal axis 130 times shorter than the others, so that only the 00l row lies in the shell and l runs to +-130
    # (a 300 A axis at ordinary resolution): indices beyond a signed byte
    # (their numbers do not fit TLC's 32-bit products; they are checked by needle_check below, where the allowed set is simply 00l)
    if pid == "C06":
        # one shell with more than 4096 families (P-1, about 8600 lattice points): lists longer than any fixed-size buffer
        i2 = [i for i, t in enumerate(tabs) if t["no"] == 2][0]
        m = gl.conforming_metrics("triclinic", "standard", rng, 1)[0]
        K, _ = gl.shell_for(m, 8700 if tier == "quick" else 20000, rng)
        inst.append({"t": i2 + 1, "met": m, "K": K, "Kmin": 0, "huge": 1})
    pairs = []
    if pid == "C05":
        for (a, b) in rcentred_instances(tabs, rng, 1 if tier == "quick" else 4):
            inst.append(a)
            inst.append(b)
            pairs.append((len(inst) - 1, len(inst)))
    common.write_data_module(wd, "GenHklCases", {"Instances": [{k: I[k] for k in ("t", "met", "K", "Kmin")} for I in inst]})
    r = common.run_tlc("GenHkl", "MC_GenHkl.cfg" if tier == "quick" else "MC_GenHkl_live.cfg", wd,
                       timeout=3000, heap="12g")
    if r.violated:
        raise common.MachineryError("GenHkl model: TLC reports %s (termination must hold)" % r.violated)
    by = collections.defaultdict(dict)
    for x in r.records:
        by[x["inst"]][x["ext"]] = x
    if len(by) != len(inst) or any(len(v) != 2 for v in by.values()):
        raise common.MachineryError("expected 2 terminal states per instance (%d), got %d groups" % (len(inst), len(by)))
    return wd, tabs, inst, r, by, rng, pairs


def needle_check(v, tabs, rng, pid):
    """Cells with one reciprocal axis 130 times shorter than the other two (a 300 A axis at ordinary resolution): only the row 00l lies in
    the shell, l runs to +-130 - beyond a signed byte.  For the five primitive groups used (P1, P-1, P222, Pmmm, P4) nothing is extinct, so the
    allowed set is {(0,0,l) : Kmin < l^2 <= K} and every Laue family is {(0,0,l), (0,0,-l)}; no model is needed to say so, and the numbers
    (17000^2 . 130^2) do not fit TLC's integers."""
    import numpy as np
    n = 0
    for t in tabs:
        if (t["no"], t["setting"]) not in ((1, "standard"), (2, "standard"), (16, "standard"), (75, "standard"), (47, "standard")):
            continue
        met = [17000, 17000, 1, 0, 0, 0]
        K, Kmin = 16950, rng.choice([0, 15000])
        c = 0.01 * rng.uniform(0.5, 2.0) / 1000.0
        cell = gl.cell_from_recip_metric(met, c)
        smin, smax = gl.bounds(K, Kmin, c)
        ls = [l for l in range(1, 131) if Kmin < l * l <= K]
        want_all = sorted([(0, 0, l) for l in ls] + [(0, 0, -l) for l in ls])
        for modname in ("tools", "laue"):
            for func in (("genhkl_all",) if pid == "C05" else ("genhkl_unique", "genhkl_all")):
                res = gl.call_gen((modname, func, list(cell), smin, smax, dict(sgno=t["no"], cell_choice=t["setting"]), rng.randrange(1 << 30), True))
                n += 1
                v.case(("needle", t["no"], modname, func))
                tag = "%s, Sg%d, needle cell c* = a*/130, %d < l^2 <= %d, xfab.%s" % (func, t["no"], Kmin, K, modname)
                if isinstance(res, str):
                    v.violation("%s raised: %s" % (tag, res), {"sg": t["no"], "cell": cell})
                    continue
                rows = gl.rows_to_int(res)
                if rows is None:
                    v.violation("%s returned non-integer indices" % tag, {"sg": t["no"], "cell": cell})
                    continue
                if func == "genhkl_all":
                    if sorted(rows) != want_all:
                        miss = sorted(set(want_all) - set(rows))[:4]
                        extra = sorted(set(rows) - set(want_all))[:4]
                        v.violation("%s: %d rows, the shell holds %d reflections 00l; missing %s, extra %s" % (tag, len(rows), len(want_all), miss, extra),
                                    {"sg": t["no"], "cell": cell})
                else:
                    ok = len(rows) == len(ls) and all(r[0] == 0 and r[1] == 0 for r in rows) and [abs(r[2]) for r in rows] == ls
                    if not ok:
                        v.violation("%s: rows %s ... are not one of (0,0,+-l) for each l = %d..%d in order" % (tag, rows[:3], ls[0], ls[-1]),
                                    {"sg": t["no"], "cell": cell})
    return n


def session_worker(scalls):
    """several generator calls one after the other in this one process"""
    return [gl.call_gen(c_) for c_ in scalls]


def tset(lst):
    return set(tuple(x) for x in lst)


def classify(tab, rec_sys, rec_ops, code_rows):
    """Return (status, text). status in ok / early / violation"""
    J = rec_sys["judge"]
    A = tset(J["allowed"])
    cnt = collections.Counter(code_rows)
    if set(cnt) == A and all(v == 1 for v in cnt.values()):
        return "ok", ""
    missing = sorted(A - set(cnt))
    extra = sorted(set(cnt) - A)
    rep = sorted(h for h, v in cnt.items() if v > 1)
    text = "%d missing %s, %d extra %s, %d repeated %s" % (len(missing), missing[:4], len(extra), extra[:4],
                                                          len(rep), rep[:4])
    # what the implementation-shaped model predicts
    Bsys = collections.Counter(gl.expand(tab, [tuple(h) for h in rec_sys["H"]] + [tuple(h) for h in rec_sys["dup"]]))
    Bops = collections.Counter(gl.expand(tab, [tuple(h) for h in rec_ops["H"]] + [tuple(h) for h in rec_ops["dup"]]))
    unit_same = tset(J["unit_sys"]) == tset(J["unit_ops"])
    if cnt == Bsys and unit_same and J["unit_ops_sound"] and Bsys == Bops and set(Bops) != A:
        # the only difference between B and A on this instance is the early exit
        return "early", text
    diag = ""
    if not unit_same:
        slots = sorted(set(int(d[1]) for d in J["disagree"]))
        miss = [d[0] for d in J["disagree"] if d[1] == 0][:3]
        diag = "; syscond table disagrees with the group's operators on the traversed unit: slots(type numbers) %s, " \
               "not flagged although extinct e.g. %s" % (slots, miss)
    if cnt == Bsys:
        diag += "; output equals the traversal model with the 26-slot evaluator"
    return "violation", text + diag


def run(tier, seed):
    warnings.simplefilter("ignore")
    v = common.Verdict("C05", tier, seed)
    wd, tabs, inst, r, by, rng, pairs = build(tier, seed, "C05")
    calls = []
    meta = []
    for i, I in enumerate(inst, start=1):
        t = tabs[I["t"] - 1]
        c = 0.01 * rng.uniform(0.5, 2.0)
        cell = gl.cell_from_recip_metric(I["met"], c)
        smin, smax = gl.bounds(I["K"], I["Kmin"], c, tight=0 if (I.get("pseudo") or I.get("long") or I.get("needle") or I.get("huge") or I.get("far")) else i % 5)
        if I["Kmin"] == 0 and i % 3 == 0:
            smin = -0.1 * (i % 2)          # a lower bound of exactly 0 or below 0 means "no lower bound": 000 is never a reflection
        variants = [("tools", dict(sgno=t["no"], cell_choice=t["setting"]), rng.randrange(1 << 30)),
                    ("tools", dict(sgname=t["name_text"]), rng.randrange(1 << 30)),
                    ("laue", dict(sgno=t["no"], cell_choice=t["setting"]), rng.randrange(1 << 30))]
        # a plain name together with an explicit setting (rhombohedral tables: the name without its trailing r)
        plain = t["name_text"][:-1] if t["setting"] == "rhombohedral" and t["name_text"].endswith("r") else t["name_text"]
        variants.append((("laue", "tools")[i % 2], dict(sgname=plain, cell_choice=t["setting"]), rng.randrange(1 << 30)))
        if tier == "thorough":
            variants.append(("laue", dict(sgname=t["name_text"]), rng.randrange(1 << 30)))
        for (mod, kw, s) in variants:
            calls.append((mod, "genhkl_all", cell, smin, smax, kw, s, False))
            meta.append((i, mod, kw, cell, smin, smax, s))
    results = common.pmap(gl.call_gen, calls)
    n_early = 0
    sound_fail = []
    for (i, mod, kw, cell, smin, smax, s), res in zip(meta, results):
        I = inst[i - 1]
        t = tabs[I["t"] - 1]
        J = by[i]["sysabs"]["judge"]
        desc = {"sg": [t["no"], t["setting"]], "recip_metric": I["met"], "K": I["K"], "Kmin": I["Kmin"],
                "module": mod, "by": kw, "cell": cell, "sintlmin": smin, "sintlmax": smax, "np_seed": s,
                "allowed": len(J["allowed"])}
        key = (i, mod, tuple(sorted(kw)))
        v.case((I["t"], tuple(I["met"]), I["K"], I["Kmin"]), nontrivial=len(J["allowed"]) > 0,
               sample=desc if len(v.samples) < 3 else None)
        if not J["unit_ops_sound"] and i not in sound_fail:
            sound_fail.append(i)
        if isinstance(res, str):
            v.violation("genhkl_all raised %s for Sg%d/%s" % (res, t["no"], t["setting"]), desc)
            continue
        rows = gl.rows_to_int(res)
        if rows is None:
            v.violation("genhkl_all returned non-integer indices for Sg%d/%s" % (t["no"], t["setting"]), desc)
            continue
        status, text = classify(t, by[i]["sysabs"], by[i]["operators"], rows)
        if status == "ok":
            continue
        if status == "early" and v.is_listed(gl.F_EARLY):
            v.known_finding(gl.F_EARLY)
            n_early += 1
            continue
        desc["got_rows"] = len(rows)
        v.violation("genhkl_all(Sg%d %s, recip metric %s, %d<Q<=%d, xfab.%s, %s): %s" %
                    (t["no"], t["setting"], I["met"], I["Kmin"], I["K"], mod, sorted(kw), text), desc)
    # sessions: all groups that carry the same Laue label (on whatever axes: P3, P31, P-3 on hexagonal axes, R3 and R-3 on rhombohedral
    # ones ...) are asked one after the other in ONE process, in table order and in reverse; each answer must be the set the same call
    # gave in the main run (whatever is remembered per Laue class, per lattice type or per number of operations must not leak)
    by_label = collections.OrderedDict()
    first_call = {}
    for idx, (m_, res_) in enumerate(zip(meta, results)):
        i_, mod_ = m_[0], m_[1]
        if "sgno" in m_[2] and (i_, mod_) not in first_call and not isinstance(res_, str) and not inst[i_ - 1].get("huge"):
            first_call[(i_, mod_)] = idx
    seen_tab = set()
    for (i_, mod_), idx in first_call.items():
        t_ = tabs[inst[i_ - 1]["t"] - 1]
        if (t_["no"], t_["setting"], mod_) in seen_tab:
            continue
        seen_tab.add((t_["no"], t_["setting"], mod_))
        by_label.setdefault((t_["Laue"], mod_), []).append(idx)
    sessions = []
    for (lab, mod_), idxs in by_label.items():
        if len(idxs) > 1:
            sessions.append([calls[j] for j in idxs] + [calls[j] for j in reversed(idxs)])
            sessions[-1] = (sessions[-1], idxs + list(reversed(idxs)))
    sres = common.pmap(session_worker, [s_[0] for s_ in sessions], chunk=1)
    nsess = 0
    for (scalls, idxs), outs in zip(sessions, sres):
        for j, o in zip(idxs, outs):
            nsess += 1
            a_, b_ = gl.rows_to_int(results[j]), (gl.rows_to_int(o) if not isinstance(o, str) else None)
            if b_ is None or collections.Counter(a_) != collections.Counter(b_):
                i_ = meta[j][0]
                t_ = tabs[inst[i_ - 1]["t"] - 1]
                v.violation("genhkl_all(Sg%d %s, xfab.%s) returns a different set of reflections when it is asked after other groups of Laue class %s in the "
                            "same process (%s rows) than on its own (%d rows)" % (t_["no"], t_["setting"], meta[j][1], t_["Laue"],
                                                                                  "an exception" if b_ is None else len(b_), len(a_)),
                            {"sg": [t_["no"], t_["setting"]], "module": meta[j][1], "laue": t_["Laue"]})
                break
    # conformance of SysAbs.tla with the real evaluators (evidence; a drift is reported, not a verdict)
    drift, ncalls = sysabs_conformance(tabs, inst, by)
    if drift:
        v.notes.append("MODEL DRIFT: SysAbs.tla and the real sysabs/sysabs_unique disagree on %d calls, e.g. %s" %
                       (len(drift), drift[:3]))
    # R-centred groups: hexagonal and rhombohedral settings under the obverse transformation
    rcentred_check(v, tabs, inst, by, pairs)
    nr = 0
    if sound_fail:
        v.notes.append("model: transcribed segment tables are not a sound asymmetric unit on instances %s" % sound_fail[:10])
    # collapse per (setting) so one defect does not flood the output
    if v.violations:
        seen = {}
        for q in v.violations:
            k = tuple(q["case"].get("sg", [])) + (q["what"].split(":")[-1][:60],)
            seen.setdefault(tuple(q["case"].get("sg", [])), q)
        v.notes.append("%d violating calls in %d settings" % (len(v.violations), len(seen)))
        v.violations = list(seen.values())
        v.max_replays = 60
    cov = {"states": r.distinct, "transitions": r.generated,
           "traces_validated_against_impl": len(calls) + nr,
           "instances": len(inst), "settings": len(tabs), "tlc_wall_s": round(r.wall, 1),
           "early_exit_instances_met": n_early, "exhaustive": False,
           "sysabs_calls_compared_with_model": ncalls, "sysabs_model_drift": len(drift),
           "rule": "instance = (setting, conforming integer reciprocal metric, shell); every setting x %d metrics; "
                   "each replayed by number and by name, tools and laue, under distinct numpy seeds; "
                   "non-trivial = non-empty allowed set" % (2 if tier == "quick" else 5)}
    cov["needle_cell_calls"] = needle_check(v, tabs, rng, "C05")
    return v.finish("model_checking", cov, ASSUME)


def sysabs_conformance(tabs, inst, by):
    from xfab import tools, laue
    drift = []
    n = 0
    for i, I in enumerate(inst, start=1):
        t = tabs[I["t"] - 1]
        for (h, ty, tu) in by[i]["sysabs"]["judge"]["types"]:
            for mod in (tools, laue):
                n += 2
                a = mod.sysabs(list(h), t["syscond"], t["crystal_system"], t["cell_choice"])
                b = mod.sysabs_unique(list(h), t["syscond"])
                if a != ty or b != tu:
                    drift.append({"sg": [t["no"], t["setting"]], "hkl": h, "model": [ty, tu], "code": [int(a), int(b)],
                                  "module": mod.__name__})
    return drift, n


P_OBV = [[1, 0, 1], [-1, 1, 1], [0, -1, 1]]   # (a_h,b_h,c_h) = (a_r,b_r,c_r).P  (standard obverse setting)


def rcentred_instances(tabs, rng, n):
    """Pairs of instances (hexagonal, rhombohedral) of the same R-centred group on the same lattice:
    indices transform as h_h = h_r.P, reciprocal metrics as G*_r = P G*_h P' (exact integers)."""
    import numpy as np
    P = np.array(P_OBV)
    out = []
    for ir, t in enumerate(tabs):
        if t["setting"] != "rhombohedral":
            continue
        ih = [j for j, u in enumerate(tabs) if u["no"] == t["no"] and u["setting"] == "standard"][0]
        for rep in range(n):
            mm = rng.choice([2, 3, 4])
            cc = rng.choice([3, 4, 5, 7])
            Gh = np.array([[2 * mm, mm, 0], [mm, 2 * mm, 0], [0, 0, cc]])
            Gr = P.dot(Gh).dot(P.T)
            mh = [int(Gh[0, 0]), int(Gh[1, 1]), int(Gh[2, 2]), int(Gh[1, 2]), int(Gh[0, 2]), int(Gh[0, 1])]
            mr = [int(Gr[0, 0]), int(Gr[1, 1]), int(Gr[2, 2]), int(Gr[1, 2]), int(Gr[0, 2]), int(Gr[0, 1])]
            if not (mr[0] == mr[1] == mr[2] and mr[3] == mr[4] == mr[5]):
                raise common.MachineryError("obverse transformation does not give a rhombohedral metric: %s" % mr)
            K = rng.choice([40, 55, 70])
            out.append(({"t": ih + 1, "met": mh, "K": K, "Kmin": 0}, {"t": ir + 1, "met": mr, "K": K, "Kmin": 0}))
    return out


def rcentred_check(v, tabs, inst, by, pairs):
    """the two settings' ALLOWED sets (computed by TLC from the operators) must coincide under h_h = h_r.P;
    the code's outputs for both members are compared with their own allowed set by the main loop."""
    import numpy as np
    P = np.array(P_OBV)
    for (ih, ir) in pairs:
        Ah = tset(by[ih]["sysabs"]["judge"]["allowed"])
        Ar = tset(by[ir]["sysabs"]["judge"]["allowed"])
        mapped = set(tuple(int(x) for x in np.array(h).dot(P)) for h in Ar)
        t = tabs[inst[ih - 1]["t"] - 1]
        if mapped != Ah:
            v.violation("Sg%d: operators of the hexagonal and rhombohedral settings allow different reflections under "
                        "the obverse transformation: only hex %s, only rhombohedral %s" %
                        (t["no"], sorted(Ah - mapped)[:4], sorted(mapped - Ah)[:4]),
                        {"sg": [t["no"], "hex-vs-rhombohedral"], "hex": inst[ih - 1], "rh": inst[ir - 1]})


def replay(path, seed):
    import json
    common.use_repo()
    c = json.load(open(path))["case"]
    print("replay instance:", {k: c[k] for k in c if k != "cell"})
    return run("quick", seed)
