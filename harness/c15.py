"""C15 - site multiplicity equals the size of the orbit.

TLC (spec/Multiplicity.tla) computes |orbit| exactly for (table, rational position) cases and
checks orbit-stabiliser, divisibility, class and shift invariance.  Every case is replayed into the
real xfab.structure.multiplicity (float coordinates, also shifted by lattice vectors; by number+setting
and by name).
"""
import random
import warnings

import common
import export

GRID = [0, 3, 4, 6, 8, 9, 12, 15, 16, 18, 20, 21]      # /24 : 0,1/8,1/6,1/4,1/3,3/8,1/2,5/8,2/3,3/4,5/6,7/8
X, Y, Z, NF = 331, 787, 509, 2400                       # generic coordinates / 2400


def families(x=X, y=Y, z=Z, n=NF):
    h, q, e = n // 2, n // 4, n // 8
    th = n // 3
    F = [(x, x, z), (x, 2 * x, z), (x, -x, z), (x, 0, 0), (0, 0, z), (x, x, x), (x, y, z),
         (0, y, 0), (x, y, 0), (0, y, z), (x, 0, z), (x, x, 0), (x, -x, 0), (x, 2 * x, 0),
         (x, x + h, z), (x, q, e), (q, y, e), (h, y, z), (x, h - x, z), (th, 2 * th, z),
         (x, x + q, x + h), (-x, x, z), (2 * x, x, z), (x, x, h), (q, q, z), (0, h, z),
         (x, q - x, e), (e + x, x, q)]
    return [([a % n, b % n, c % n], n) for (a, b, c) in F]


ASSUME = [
    "positions are exact rationals p/N (N=24 grid, N=2400 for the generic families); floats passed to the code are p/N (+ integer lattice shifts)",
    "the orbit is computed from the exported tables, whose group laws are C04's subject",
]


def _call(a):
    pos, no, setting, name = a
    from xfab import structure
    import numpy as np
    try:
        if all(float(q).is_integer() for q in pos):
            # lattice points given the way a user types them: [0, 0, 0], [1, 0, -2] (Python ints, integer array)
            ints = [int(q) for q in pos]
            a = structure.multiplicity(ints, sgno=no, cell_choice=setting)
            b = structure.multiplicity(np.array(ints), sgname=name)
            c = structure.multiplicity(pos, sgname=name)
            if not (a == b == c):
                return "integer-typed coordinates %s give %s / %s, the same point as floats gives %s" % (ints, a, b, c)
        k = int(abs(pos[0] * 1000)) % 3
        p1 = [list, np.array, list][k](pos)
        # the name as users type it: as tabulated, lower case, upper case, with blanks (the lookup is documented as insensitive
        # to case and whitespace; the trailing r of the rhombohedral settings is part of the name in every spelling)
        k2 = int(abs(pos[1] * 1000) + abs(pos[2] * 100)) % 4
        nm = [name, name.lower(), name.upper(), " " + " ".join(name) + " "][k2]
        return (structure.multiplicity(p1, sgno=[np.int64(no), no, float(no)][k], cell_choice=setting),
                structure.multiplicity(np.array(pos), sgname=nm))
    except Exception as ex:
        return repr(ex)


def suite_multiplicity_events(wd, tabs, dic):
    """multiplicity calls made while the repository's own tests run (harness/suite_plugin.py): each becomes a case for
    Multiplicity.tla, the recorded result is then compared with the exact orbit size.  Coordinates with up to 5 decimals are exact
    over N = 2 400 000."""
    import json
    import os
    import subprocess
    import sys
    if not os.path.isdir(os.path.join(common.REPO, "test")):
        return []
    out = os.path.join(wd, "suite_trace.json")
    env = dict(os.environ, XFAB_SUITE_TRACE=out, XFAB_SUITE_LOOKUPS="1",
               PYTHONPATH=os.pathsep.join([os.path.dirname(os.path.abspath(__file__)), common.REPO]))
    subprocess.run([sys.executable, "-m", "pytest", "-q", "-p", "no:cacheprovider", "-p", "suite_plugin", "test/test_structure.py"],
                   cwd=common.REPO, env=env, stdout=subprocess.PIPE, stderr=subprocess.STDOUT, timeout=1200)
    if not os.path.exists(out):
        return []
    ev = [e for e in json.load(open(out)) if e["ev"] == "multiplicity"]
    os.remove(out)
    keyno = {d["text"]: d["no"] for d in dic}
    res = []
    N = 2400000
    for e in ev:
        if e["sgname"] is not None:
            k = "".join(e["sgname"].split()).lower()
            if k not in keyno:
                continue
            no = keyno[k]
            setting = "rhombohedral" if (k[0] == "r" and k[-1] == "r") else "standard"
        else:
            no, setting = e["sgno"], (e["choice0"] if e["choice0"] == "rhombohedral" else "standard")
        ti = [i for i, t in enumerate(tabs) if t["no"] == no and t["setting"] == setting]
        if not ti:
            ti = [i for i, t in enumerate(tabs) if t["no"] == no and t["setting"] == "standard"]
        p = [x * N for x in e["pos"]]
        if any(abs(q - round(q)) > 1e-6 for q in p):
            continue                     # not exactly representable on the lattice: no exact oracle
        res.append((ti[0] + 1, [int(round(q)) % N for q in p], N, e))
    return res


def run(tier, seed):
    warnings.simplefilter("ignore")
    v = common.Verdict("C15", tier, seed)
    wd = common.workdir("C15")
    tabs, dic = export.write_tables_module(wd)
    suite = suite_multiplicity_events(wd, tabs, dic)
    rng = random.Random(seed)
    grid = [([a, b, c], 24) for a in GRID for b in GRID for c in GRID]
    # second generic triple: decimal coordinates with a 5 in the sixth place (0.123455, 0.271, 0.062505) - rounding ties of a
    # 1e-5 grid: images of one point reached along different float routes (x, 1-(1-x), x+1/2+1/2) must still count once
    fam = families() + [([0, 0, 0], 24), ([0, 0, 12], 24)] + families(370365, 813000, 187515, 3000000)
    nt = len(tabs)
    if tier == "quick":
        cases = []
        for ti in range(1, nt + 1):
            pts = rng.sample(grid, 60) + fam
            cases += [[ti, [p, n]] for (p, n) in pts]
        cases += [[ti, [p, n]] for (ti, p, n, e) in suite]
        defs = {"Cases": common.TlaSet(cases), "TableSel": common.TlaSet([]), "Points": common.TlaSet([])}
    else:
        defs = {"Cases": common.TlaSet([[ti, [p, n]] for (ti, p, n, e) in suite]), "TableSel": common.TlaSet(list(range(1, nt + 1))),
                "Points": common.TlaSet([[p, n] for (p, n) in grid + fam])}
    common.write_data_module(wd, "C15Cases", defs)
    r = common.run_tlc("Multiplicity", "MC_Multiplicity.cfg", wd, timeout=3000)
    if r.violated:
        raise common.MachineryError("unexpected TLC violation %s" % r.violated)
    seen = set()
    shifts = [(0, 0, 0), (1, 0, 0), (0, -1, 2), (-3, 2, 1), (5, 5, -4)]
    nbad_model = 0
    todo = []
    for x in r.records:
        key = (x["t"], tuple(x["p"]), x["N"])
        if key in seen:
            continue
        seen.add(key)
        t = tabs[x["t"] - 1]
        sh = shifts[rng.randrange(len(shifts))]
        pos = [x["p"][i] / x["N"] + sh[i] for i in range(3)]
        todo.append((x, sh, pos, t["no"], t["setting"], t["name_text"]))
    results = common.pmap(_call, [q[2:] for q in todo])
    for (x, sh, pos, _no, _st, _nm), res in zip(todo, results):
        key = (x["t"], tuple(x["p"]), x["N"])
        t = tabs[x["t"] - 1]
        if not x["ok"]:
            nbad_model += 1
            v.violation("orbit laws (orbit-stabiliser/divides/class/shift) fail in the model for Sg%d/%s at %s/%d: "
                        "the table is not a group" % (t["no"], t["setting"], x["p"], x["N"]),
                        {"table": [t["no"], t["setting"]], "p": x["p"], "N": x["N"]})
            continue
        nontriv = x["m"] != t["nsymop"]
        sample = {"sg": [t["no"], t["setting"]], "pos": "%s/%d" % (x["p"], x["N"]), "shift": sh, "orbit_size": x["m"]}
        v.case(key, nontrivial=True, sample=sample if (nontriv and rng.random() < 0.01) or not v.samples else None)
        if isinstance(res, str):
            v.violation("multiplicity: %s (Sg%d %s)" % (res, t["no"], t["setting"]), sample)
            continue
        got_no, got_nm = res
        if got_no != x["m"] or got_nm != x["m"]:
            v.violation("multiplicity(%s, Sg%d %s) = %s (by number), %s (by name %r); orbit has %d points" %
                        (pos, t["no"], t["setting"], got_no, got_nm, t["name_text"], x["m"]),
                        dict(sample, got_by_number=got_no, got_by_name=got_nm, float_pos=pos))
    # the suite's own calls against the model
    orbit = {(x["t"], tuple(x["p"]), x["N"]): x["m"] for x in r.records}
    nsuite = 0
    for (ti, p, n, e) in suite:
        m = orbit.get((ti, tuple(p), n))
        if m is None:
            continue
        nsuite += 1
        if e["result"] != m:
            v.violation("while the repository's tests ran: multiplicity(%s, %s) returned %d, the orbit has %d points" %
                        (e["pos"], e["sgname"] or e["sgno"], e["result"], m), {"sg": [tabs[ti - 1]["no"], tabs[ti - 1]["setting"]], "event": e})
    cov = {"states": r.distinct, "transitions": r.generated, "traces_validated_against_impl": len(seen) + nsuite,
           "suite_multiplicity_calls_validated": nsuite,
           "exhaustive": tier == "thorough",
           "tlc_wall_s": round(r.wall, 1),
           "rule": "case = (table, rational position); quick: 60 seeded grid points + 28 family members per table; "
                   "thorough: full 12^3 grid + families for all 237 tables; each replayed with a lattice shift, by number and by name"}
    # group violations so that one defect does not print thousands of lines
    if len(v.violations) > 0:
        by = {}
        for q in v.violations:
            c = q["case"]
            k = tuple(c.get("sg", c.get("table", [])))
            by.setdefault(k, []).append(q)
        cov["violating_tables"] = len(by)
        cov["violating_cases"] = len(v.violations)
        v.violations = [qs[0] for qs in by.values()]
    return v.finish("model_checking", cov, ASSUME)


def replay(path, seed):
    import json
    common.use_repo()
    from xfab import structure
    c = json.load(open(path))["case"]
    got = structure.multiplicity(c["float_pos"], sgno=c["sg"][0], cell_choice=c["sg"][1])
    print("multiplicity(%s, sgno=%d, %s) = %d, orbit size %d" % (c["float_pos"], c["sg"][0], c["sg"][1], got, c["orbit_size"]))
    if got != c["orbit_size"]:
        print("VIOLATION property=C15 replay=%s" % path)
        return 1
    return 0
