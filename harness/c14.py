"""C14 - xfab.tools and xfab.laue agree on everything except the documented factor 2*pi.

TLC (spec/Conventions.tla) declares the 2pi-weight signature of the 41 shared functions (the refinement mapping between
the two modules) and runs a unit analysis of every function body that touches 2*pi.  The harness executes every shared
function in both modules on inputs taken from the exact lattices (own small TLC emissions of Cell, Orient, GenHkl,
Omega and Strain), maps arguments and results through the weights and compares.  A function with no compared call
fails the check.
"""
import math
import random
import warnings

import common
import export
import c02
import c05
import c09
import c13
import genhkl_lib as gl
import lattice_lib as L

F_2PI = "ubi-to-u-and-eps-missing-2pi"
ASSUME = [
    "inputs come from the exact lattices of C01-C03, C05, C06, C09, C13 (float images); tools receives x, laue receives x/(2pi)^w",
    "agreement at 1e-12 relative (1e-9 for the omega solvers, whose square root amplifies rounding, 1e-7 for find_omega, which takes "
    "arccos of a cosine that may be close to +-1); integer rows exactly",
    "tangent omega constructions are not used (both modules are ill-conditioned there)",
]
TWO_PI = 2 * math.pi


class Diff(object):
    def __init__(self, sig):
        import numpy as np
        from xfab import tools, laue
        self.np, self.tools, self.laue = np, tools, laue
        self.sig = sig
        self.count = {k: 0 for k in sig}
        self.bad = []
        self.known = 0

    def key(self, name):
        return "arctan2" if name == "_arctan2" else name

    def run(self, name, args, kwargs=None, tol=1e-12, note=""):
        np = self.np
        sg = self.sig[self.key(name)]
        kwargs = kwargs or {}
        la = []
        for a, w in zip(args, sg["inw"] + [0] * (len(args) - len(sg["inw"]))):
            la.append(np.asarray(a, dtype=float) / TWO_PI if w else a)
        try:
            rt = getattr(self.tools, name)(*[a.copy() if hasattr(a, "copy") and not isinstance(a, (list, dict)) else a for a in args], **kwargs)
            et = None
        except Exception as ex:
            rt, et = None, ex
        try:
            rl = getattr(self.laue, name)(*[a.copy() if hasattr(a, "copy") and not isinstance(a, (list, dict)) else a for a in la], **kwargs)
            el = None
        except Exception as ex:
            rl, el = None, ex
        self.count[self.key(name)] += 1
        if et is not None or el is not None:
            if type(et) != type(el):
                self.bad.append("%s: tools %s, laue %s %s" % (name, "raised %r" % et if et else "returned", "raised %r" % el if el else "returned", note))
            return rt, rl
        outs_t = list(rt) if isinstance(rt, tuple) and len(rt) == len(sg["outw"]) else [rt]
        outs_l = list(rl) if isinstance(rl, tuple) and len(rl) == len(sg["outw"]) else [rl]
        if len(outs_t) != len(outs_l):
            self.bad.append("%s: different result structure %s" % (name, note))
            return rt, rl
        for k, (a, b) in enumerate(zip(outs_t, outs_l)):
            w = sg["outw"][k] if k < len(sg["outw"]) else 0
            try:
                A = np.asarray(a, dtype=float)
                Bm = np.asarray(b, dtype=float) * (TWO_PI if w else 1.0)
            except Exception:
                if a != b:
                    self.bad.append("%s: results differ %r / %r %s" % (name, a, b, note))
                continue
            if A.shape != Bm.shape:
                self.bad.append("%s: result shapes differ %s / %s %s" % (name, A.shape, Bm.shape, note))
                continue
            if A.size == 0:
                continue
            if sg["outk"][min(k, len(sg["outk"]) - 1)] == "angle" and name.startswith("find_omega"):
                # solutions are angles: +pi and -pi are the same solution
                A, Bm = np.concatenate([np.cos(A), np.sin(A)]), np.concatenate([np.cos(Bm), np.sin(Bm)])
            scale = max(1.0, float(np.nanmax(np.abs(A)))) if np.any(np.isfinite(A)) else 1.0
            if not np.all(np.isfinite(A) == np.isfinite(Bm)) or float(np.nanmax(np.abs(A - Bm))) > tol * scale:
                if name == "ubi_to_u_and_eps" and k == 1:
                    I6 = np.array([1, 0, 0, 1, 0, 1.0])
                    if np.abs(A - (TWO_PI * (Bm + I6) - I6)).max() < 1e-9 * 10:
                        self.known += 1
                        continue
                self.bad.append("%s: tools and laue differ by %.3g (output %d of kind %s, weight %d): %s vs %s %s" %
                                (name, float(np.nanmax(np.abs(A - Bm))), k + 1, sg["outk"][k] if k < len(sg["outk"]) else "?", w,
                                 np.array2string(A.ravel()[:6], precision=12), np.array2string(Bm.ravel()[:6], precision=12), note))
        return rt, rl


def run(tier, seed):
    warnings.simplefilter("ignore")
    import numpy as np
    v = common.Verdict("C14", tier, seed)
    wd = common.workdir("C14")
    rng = random.Random(seed + 14)
    states = trans = 0
    rcv = common.run_tlc("Conventions", "MC_Conventions.cfg", wd, timeout=600)
    states += rcv.distinct
    trans += rcv.generated
    sig = None
    incons = []
    for x in rcv.records:
        if "sig" in x:
            sig = x["sig"]
        elif not x["consistent"]:
            incons.append("%s.%s" % (x["module"], x["function"]))
    if sig is None or len(sig) != 41:
        raise common.MachineryError("Conventions.tla did not emit the 41 signatures")
    # the shared API is what the signature table says it is
    import inspect
    from xfab import tools, laue
    ft = {n for n, o in vars(tools).items() if inspect.isfunction(o) and o.__module__ == "xfab.tools"}
    fl = {n for n, o in vars(laue).items() if inspect.isfunction(o) and o.__module__ == "xfab.laue"}
    shared = {("arctan2" if n == "_arctan2" else n) for n in ft & fl}
    if ft != fl:
        v.violation("the two modules do not define the same functions: only tools %s, only laue %s" % (sorted(ft - fl), sorted(fl - ft)), {})
    if shared != set(sig):
        v.notes.append("shared API differs from the 41 declared signatures: undeclared %s, missing %s" % (sorted(shared - set(sig)), sorted(set(sig) - shared)))
    for q in incons:
        if q == "tools.ubi_to_u_and_eps" and v.is_listed(F_2PI):
            v.known_finding(F_2PI)
        else:
            v.violation("unit analysis: the 2pi bookkeeping of %s is inconsistent with its declared weights" % q, {"function": q})
    D = Diff(sig)
    # ---- A: cells
    n = 40 if tier == "quick" else 400
    ms = [c02.draw_metric(rng) for _ in range(n)]
    hk = [[1, 0, 0], [0, 1, 1], [1, -2, 3], [-3, 1, 2], [2, 2, -1]]
    common.write_data_module(wd, "CellCases", {"Metrics": common.TlaSet(ms), "Hkls": common.TlaSet(hk)})
    rc = common.run_tlc("Cell", "MC_Cell0.cfg", wd, timeout=600)
    states += rc.distinct
    trans += rc.generated
    # one list object refilled in place for every record (a cell under refinement is the caller's one list, updated between calls):
    # a function that remembers what it derived from "the same" argument object answers for the previous contents
    CELL = [0.0] * 6
    for x in rc.records:
        u = rng.uniform(0.5, 20)
        CELL[:] = L.cell_from_metric(x["G"], u)
        cell = CELL
        note = "(metric %s u=%.4g)" % (x["G"], u)
        A, _ = D.run("form_a_mat", [cell], note=note)
        Bt, _ = D.run("form_b_mat", [cell], note=note)
        D.run("form_a_mat_inv", [cell], note=note)
        D.run("cell_invert", [cell], note=note)
        D.run("cell_volume", [cell], note=note)
        D.run("a_to_cell", [np.asarray(A)], note=note)
        D.run("b_to_cell", [np.asarray(Bt)], note=note)
        D.run("reduce_cell", [cell], note=note)
        lam = rng.uniform(0.15, 0.6)
        for (h, q) in x["q"]:
            D.run("sintl", [cell, h], note=note)
            if lam * lam * q / (4 * u * x["det"]) < 0.9:
                D.run("tth", [cell, h, lam], note=note)
    # ---- B: orientations
    pairs = []
    for (p, q) in c02.AXIS[:8] + [c02.draw_rotation(rng, 4) for _ in range(60 if tier == "quick" else 600)]:
        pairs.append([rng.choice(ms), p, q])
    common.write_data_module(wd, "OrientCases", {"Pairs": common.TlaSet(pairs), "Mats": common.TlaSet([[[1, 0, 0], [0, 1, 0], [0, 0, 1]]]),
                                                 "Hkls": common.TlaSet([[1, 0, 0]]), "IllMats": common.TlaSet([])})
    ro = common.run_tlc("Orient", "MC_Orient.cfg", wd, timeout=900)
    states += ro.distinct
    trans += ro.generated
    seenp = set()
    for x in ro.records:
        if "path" not in x:
            continue
        key = (tuple(x["G"]), tuple(x["p"]), x["q"])
        if key in seenp:
            continue
        seenp.add(key)
        u = rng.uniform(0.5, 20)
        cell = L.cell_from_metric(x["G"], u)
        U = np.array(x["N"], dtype=float).T / x["D"]
        note = "(metric %s rodrigues %s/%s)" % (x["G"], x["p"], x["q"])
        ubi, _ = D.run("u_to_ubi", [U, cell], note=note)
        ubi = np.asarray(ubi)
        D.run("ubi_to_u", [ubi], note=note)
        D.run("ubi_to_cell", [ubi], note=note)
        D.run("ubi_to_u_b", [ubi], note=note)
        D.run("ubi_to_u_and_eps", [ubi, cell], note=note)
        Bt = np.asarray(tools.form_b_mat(cell))
        D.run("ub_to_u_b", [U.dot(Bt)], note=note)
        D.run("u_to_euler", [U], note=note)
        if x["q"] != 0:
            D.run("ubi_to_rod", [ubi], note=note)
            D.run("u_to_rod", [U], note=note)
            D.run("rod_to_u", [[c / x["q"] for c in x["p"]]], note=note)
        g = U.dot(Bt).dot(np.array([1.0, -2.0, 1.0]))
        lam = 0.2
        if np.sqrt(g.dot(g)) * lam / (4 * math.pi) < 0.9:
            D.run("tth2", [g, lam], note=note)
    # ---- C: angles
    import c03
    A_ = c03.all_angles()
    S_ = c03.small_angles()
    for _ in range(200 if tier == "quick" else 3000):
        a1, a2, a3 = rng.choice(A_), rng.choice(A_), rng.choice(A_)
        t1, t2 = rng.choice(S_), rng.choice(S_)
        D.run("euler_to_u", [c03.ang(a1, True), c03.ang(a2, True), c03.ang(a3, True)])
        D.run("form_omega_mat", [c03.ang(a1)])
        D.run("form_omega_mat_general", [c03.ang(a1), c03.ang(t1), c03.ang(t2)])
        D.run("quart_to_omega", [math.degrees(c03.ang(a1)), c03.ang(t1), c03.ang(t2)])
        D.run("detect_tilt", [c03.ang(t1), c03.ang(t2), c03.ang(a3)])
        if (a1[0], a1[1]) != (0, 0):
            D.run("_arctan2", [a1[1] / a1[2] * 10 ** rng.uniform(-9, 0), a1[0] / a1[2] * 10 ** rng.uniform(-9, 0)])
    # near gimbal lock and near the half turn (PHI or pi - PHI of 1e-2 .. 1e-9, rotation angle of 180 - 1e-2 .. 1e-6 degrees): the branch
    # thresholds of u_to_euler / u_to_rod / _arctan2 must sit at the same place in both modules
    for _ in range(120 if tier == "quick" else 2000):
        PHI = 10 ** rng.uniform(-9, -2)
        if rng.random() < 0.5:
            PHI = math.pi - PHI
        e = [rng.uniform(0, 2 * math.pi), PHI, rng.uniform(0, 2 * math.pi)]
        Ug = np.asarray(tools.euler_to_u(*e), dtype=float)
        D.run("u_to_euler", [Ug], note="(near gimbal lock: PHI = %.3e)" % e[1])
        D.run("u_to_rod", [Ug], note="(near gimbal lock: PHI = %.3e)" % e[1], tol=1e-9)
        ax = np.array([rng.uniform(-1, 1) for _ in range(3)])
        ax /= np.sqrt(ax.dot(ax))
        th = math.pi - 10 ** rng.uniform(-8, -4)
        K = np.array([[0, -ax[2], ax[1]], [ax[2], 0, -ax[0]], [-ax[1], ax[0], 0]])
        Uh = np.eye(3) + math.sin(th) * K + (1 - math.cos(th)) * K.dot(K)
        D.run("u_to_euler", [Uh], note="(rotation by pi - %.1e)" % (math.pi - th))
    # products R'.R and R'.R.Rz(a): proper rotations whose (3,3) entry is 1 within an ulp, on either side
    for _ in range(60 if tier == "quick" else 1000):
        Rr = np.asarray(tools.euler_to_u(rng.uniform(0, 6.28), rng.uniform(0, 3.14), rng.uniform(0, 6.28)), dtype=float)
        az = rng.uniform(0, 6.28)
        Rzz = np.array([[math.cos(az), -math.sin(az), 0], [math.sin(az), math.cos(az), 0], [0, 0, 1.0]])
        for Up in (Rr.T.dot(Rr), Rr.T.dot(Rr).dot(Rzz), Rzz.dot(Rr.T.dot(Rr))):
            D.run("u_to_euler", [Up], note="(product of rotations, U33 - 1 = %.1e)" % (Up[2, 2] - 1))
            D.run("u_to_rod", [Up], note="(product of rotations)", tol=1e-9)
    # cells of special form (rhombohedral, hexagonal, cubic, tetragonal, orthorhombic, monoclinic): fast paths must exist in both
    # modules or in neither
    for cell_ in ([5.0, 5.0, 5.0, 60.0, 60.0, 60.0], [5.0, 5.0, 5.0, 100.0, 100.0, 100.0], [3.0, 3.0, 5.0, 90.0, 90.0, 120.0], [4.0, 4.0, 4.0, 90.0, 90.0, 90.0],
                  [4.0, 4.0, 6.0, 90.0, 90.0, 90.0], [4.0, 5.0, 6.0, 90.0, 90.0, 90.0], [4.0, 5.0, 6.0, 90.0, 100.0, 90.0], [4.0, 5.0, 6.0, 70.0, 90.0, 90.0],
                  [4.0, 5.0, 6.0, 90.0, 90.0, 110.0], [5, 5, 5, 60, 60, 60], [4, 5, 6, 90, 90, 90]):
        for fn_ in ("cell_invert", "cell_volume", "form_a_mat", "form_a_mat_inv", "form_b_mat"):
            D.run(fn_, [cell_], note="(special-form cell %s)" % (cell_,))
        D.run("sintl", [cell_, [1, -2, 3]], note="(special-form cell %s)" % (cell_,))
        D.run("b_to_cell", [np.asarray(tools.form_b_mat(cell_), dtype=float)], note="(special-form cell %s)" % (cell_,))
        D.run("a_to_cell", [np.asarray(tools.form_a_mat(cell_), dtype=float)], note="(special-form cell %s)" % (cell_,))
    # ---- D: reflection generation
    tabs, dic = export.write_tables_module(wd)
    pick = [(t["no"], t["setting"]) for t in tabs if t["no"] in (1, 2, 5, 14, 19, 62, 88, 123, 143, 146, 148, 150, 155, 158, 159, 160, 163, 165, 167, 176, 185, 186, 188, 194, 198, 205, 220, 225, 227, 230)]
    if tier == "thorough":
        pick = [(t["no"], t["setting"]) for t in tabs]
    inst = gl.make_instances(tabs, rng, 1, 120, only=set(pick))
    # Laue class -3 on rhombohedral axes is the one traversal with a widened search bound (sintl_scale): several oblique cells,
    # long axes included, so that the two modules are compared where the bound matters
    inst += gl.make_instances(tabs, rng, 6 if tier == "quick" else 30, 160, only={(146, "rhombohedral"), (148, "rhombohedral")}, long_every=1)
    common.write_data_module(wd, "GenHklCases", {"Instances": inst})
    rg = common.run_tlc("GenHkl", "MC_GenHkl.cfg", wd, timeout=2400, heap="12g")
    states += rg.distinct
    trans += rg.generated
    byi = {}
    for x in rg.records:
        byi.setdefault(x["inst"], {})[x["ext"]] = x
    st = np.random.get_state()
    for i, I in enumerate(inst, start=1):
        t = tabs[I["t"] - 1]
        c = 0.01 * rng.uniform(0.5, 2)
        cell = gl.cell_from_recip_metric(I["met"], c)
        smin, smax = gl.bounds(I["K"], I["Kmin"], c)
        note = "(Sg%d %s metric %s)" % (t["no"], t["setting"], I["met"])
        for fn in ("genhkl_all", "genhkl_unique"):
            for ostl in (False, True):
                np.random.seed(12345)
                # same numpy seed for both modules: the two calls consume the generator identically
                rt = rl = None
                sgk = dict(sgno=t["no"], cell_choice=t["setting"], output_stl=ostl)
                np.random.seed(777)
                a = getattr(tools, fn)(cell, smin, smax, **sgk)
                np.random.seed(777)
                b = getattr(laue, fn)(cell, smin, smax, **sgk)
                D.count[fn] += 1
                a, b = np.asarray(a, float), np.asarray(b, float)
                if a.shape != b.shape or (a.size and not (np.abs(a - b).max() <= 1e-12)):
                    D.bad.append("%s: tools and laue return different reflection lists %s" % (fn, note))
        kw = dict(crystal_system=t["crystal_system"], Laue_class=t["Laue"], cell_choice=t["cell_choice"], output_stl=True)
        D.run("genhkl_base", [cell, t["syscond"], smin, smax], kwargs=kw, note=note)
        # every way of giving (or not giving) the output_stl flag: both modules must return the same columns
        for flag in (None, False, 0, "absent"):
            kw2 = dict(kw)
            if flag == "absent":
                kw2.pop("output_stl")
            else:
                kw2["output_stl"] = flag
            D.run("genhkl_base", [cell, t["syscond"], smin, smax], kwargs=kw2, note=note + " output_stl=%r" % (flag,))
            if i % 4 == 0:
                D.run("genhkl", [cell, t["syscond"], smin, smax], kwargs=dict(crystal_system=t["crystal_system"], **({} if flag == "absent" else {"output_stl": flag})),
                      note=note + " output_stl=%r" % (flag,))
        if True:        # the older generator: every crystal system (the system reaches sysabs, which permutes indices for trigonal/hexagonal/cubic)
            D.run("genhkl", [cell, t["syscond"], smin, smax], kwargs=dict(crystal_system=t["crystal_system"], output_stl=True), note=note)
        for (h, ty, tu) in byi[i]["sysabs"]["judge"]["types"][:60]:
            D.run("sysabs", [list(h), t["syscond"], t["crystal_system"], t["cell_choice"]], note=note)
            D.run("sysabs_unique", [list(h), t["syscond"]], note=note)
    np.random.set_state(st)
    # ---- E: omega solvers
    cases, un = c09.make_cases(rng, "quick")
    plain = [c for c in cases if c["solver"] == "plain"]
    cases = rng.sample(cases, 150 if tier == "quick" else 3000) + rng.sample(plain, min(len(plain), 40))
    common.write_data_module(wd, "OmegaCases", {"Cases": common.TlaSet(cases), "Unreach": common.TlaSet(un[:20]),
                                                "PSolvers": common.TlaSet([]), "PTh": common.TlaSet([]), "PEta": common.TlaSet([]),
                                                "POm": common.TlaSet([]), "PTilt": common.TlaSet([])})
    rom = common.run_tlc("Omega", "MC_Omega.cfg", wd, timeout=900)
    states += rom.distinct
    trans += rom.generated
    for x in rom.records:
        cs = x["cs"]
        if cs["kind"] != "reach" or x["tangent"]:
            continue
        st_, ct_ = cs["th"][1] / cs["th"][2], cs["th"][0] / cs["th"][2]
        se, ce = cs["eta"][1] / cs["eta"][2], cs["eta"][0] / cs["eta"][2]
        glab = np.array([-st_ * st_, -2 * st_ * ct_ * se / 2, 2 * st_ * ct_ * ce / 2])
        gw = (np.array(x["N"], dtype=float) / x["den"]).T.dot(glab)
        twoth = 2 * math.atan2(cs["th"][1], cs["th"][0])
        chi, wedge = c09.a2(cs["t1"]), c09.a2(cs["t2"])
        note = "(%s 2theta=%.3f chi=%.3f wedge=%.3f)" % (cs["solver"], twoth, chi, wedge)
        if cs["solver"] == "plain":
            # find_omega takes arccos of the cosine: near omega = 0 or pi rounding differences of 1e-16 become 1e-8
            D.run("find_omega", [gw, twoth], tol=1e-7, note=note)
        elif cs["solver"] == "general":
            D.run("find_omega_general", [gw, twoth, chi, wedge], tol=1e-9, note=note)
        elif cs["solver"] == "quart":
            D.run("find_omega_quart", [gw, twoth, chi, wedge], tol=1e-9, note=note)
        else:
            D.run("find_omega_wedge", [gw, twoth, wedge], tol=1e-9, note=note)
    # ---- F: strain
    sc = [c13.draw_case(rng) for _ in range(80 if tier == "quick" else 1500)]
    common.write_data_module(wd, "StrainCases", {"Cases": common.TlaSet(sc)})
    rs = common.run_tlc("Strain", "MC_Strain.cfg", wd, timeout=900)
    states += rs.distinct
    trans += rs.generated
    done = set()
    for x in rs.records:
        k = (repr(x["B0"]), repr(x["B"]))
        if not x["inrange"] or k in done:
            continue
        done.add(k)
        s = 0.01
        cell = gl.cell_from_recip_metric(x["gstar"], s * s)
        Bs = TWO_PI * s * np.array(x["B"], dtype=float)
        eps = [q / x["epsden"] for q in x["epsnum"]]
        note = "(B0 %s B %s)" % (x["B0"], x["B"])
        D.run("b_to_epsilon", [Bs, cell], note=note)
        D.run("b_to_epsilon_old", [Bs, cell], note=note)
        D.run("epsilon_to_b", [eps, cell], note=note)
        D.run("epsilon_to_b_old", [eps, cell], note=note)
    # ---- verdict
    total = sum(D.count.values())
    for k, nn in sorted(D.count.items()):
        v.case(k, sample={"function": k, "compared_calls": nn} if len(v.samples) < 6 else None)
    v.evals = total
    zero = [k for k, nn in D.count.items() if nn == 0]
    if zero:
        raise common.MachineryError("functions with no compared call: %s" % zero)
    for _ in range(D.known):
        if v.is_listed(F_2PI):
            v.known_finding(F_2PI)
        else:
            D.bad.append("ubi_to_u_and_eps: tools returns 2pi(eps+I)-I where laue returns eps")
    seen = {}
    for b in D.bad:
        seen.setdefault(b.split(":")[0], b)
    for b in seen.values():
        v.violation(b, {"function": b.split(":")[0]})
    cov = {"evaluations": total, "distinct_nontrivial": len(D.count), "per_function_compared_calls": D.count,
           "states": states, "transitions": trans, "unit_analysis_inconsistent": incons, "exhaustive": False,
           "rule": "every one of the 41 shared functions is called in both modules on lattice inputs related by the 2pi weights; "
                   "distinct = functions covered (all 41 required), evaluations = compared call pairs"}
    return v.finish("exploration", cov, ASSUME)


def replay(path, seed):
    return run("quick", seed)
