"""C12 - lattice symmetry operators form the right groups; misorientation respects them.

TLC (spec/Symmetry.tla) checks, on the permutation tables exported from the tree under test, the group laws,
that the paired rotations (exact: integers or Z[sqrt3]/6) are proper rotations forming a group, and the
pairing rot.B.perm = B on a basis of the conforming B matrices; it emits the exact rotations and, for Cayley
rotation pairs, the exact cosine of every misorientation.  The real rotations()/ROTATIONS/Umis are compared
with these exact values and the four invariances of Umis are run as metamorphic calls.
"""
import math
import random
import warnings

import common
import lattice_lib as L
import export

ASSUME = [
    "monoclinic pairing basis assumes unique axis b; hexagonal B is taken for gamma = 120 as the code does",
    "Umis is compared through cos(angle) against an exact value in Q(sqrt3); float sqrt(3) enters only the conversion of the exact value",
]
S3 = math.sqrt(3.0)


def zval(z):
    return z[0] + z[1] * S3


def cay(p, q):
    import numpy as np
    p = np.array(p, dtype=float)
    K = np.array([[0, -p[2], p[1]], [p[2], 0, -p[0]], [-p[1], p[0], 0]])
    D = q * q + p.dot(p)
    return ((q * q - p.dot(p)) * np.eye(3) + 2 * np.outer(p, p) + 2 * q * K) / D


def run(tier, seed):
    warnings.simplefilter("ignore")
    v = common.Verdict("C12", tier, seed)
    wd = common.workdir("C12")
    rng = random.Random(seed)
    import numpy as np
    from xfab import symmetry
    sym = export.export_symmetry()
    for srec in sym:
        if not srec["integral"]:
            v.violation("permutations(%d) has non-integer entries" % srec["cs"], {"cs": srec["cs"]})
    common.write_data_module(wd, "XfabSymmetry", {"Perms": [srec["perm"] for srec in sym]})
    npairs = 40 if tier == "quick" else 1500
    pairs = set()
    while len(pairs) < npairs:
        p1 = tuple(rng.randint(-5, 5) for _ in range(3))
        p2 = tuple(rng.randint(-5, 5) for _ in range(3))
        pairs.add((p1, rng.randint(1, 5), p2, rng.randint(1, 5)))
    pairs.add(((0, 0, 0), 1, (0, 0, 0), 1))
    # axis-aligned rotations: integer matrices (quarter and half turns about the axes, three-fold about the body diagonal)
    for pa, qa in (((1, 0, 0), 1), ((0, 0, 1), 1), ((0, 1, 0), 0), ((1, 1, 1), 1), ((0, -1, 0), 1)):
        pairs.add(((0, 0, 0), 1, pa, qa))
        pairs.add((pa, qa, (0, 0, 1), 1))
    pairs.add(((1, 2, -1), 2, (1, 2, -1), 2))
    # misorientations of exactly 0 and exactly 180 degrees with rounding noise in the matrices: (trace - 1)/2 lands a few ulp
    # outside [-1, 1] on either side.  Identical pairs (two-fold operators give -1), and U1 = 1 with U2 a half turn (Cayley q = 0)
    for _ in range(14 if tier == "quick" else 200):
        p1 = tuple(rng.randint(-7, 7) for _ in range(3))
        q1 = rng.randint(1, 7)
        pairs.add((p1, q1, p1, q1))
        p2 = tuple(rng.randint(-7, 7) for _ in range(3))
        if any(p2):
            pairs.add(((0, 0, 0), 1, p2, 0))
    common.write_data_module(wd, "SymCases", {"Pairs": common.TlaSet([[list(a), b, list(c), d] for a, b, c, d in sorted(pairs)])})
    r = common.run_tlc("Symmetry", "MC_Symmetry.cfg", wd, timeout=2400)
    if r.violated:
        raise common.MachineryError("Symmetry.tla: model-level identity violated: %s" % r.violated)
    n_umis = 0
    rots_exact = {}
    for x in r.records:
        if x["kind"] != "tables":
            continue
        cs = x["cs"]
        v.case(("tables", cs), sample={"cs": cs, "failed_laws": x["failed"], "order": len(x["rot6"])})
        for law in x["failed"]:
            v.violation("crystal system %d: permutation/rotation tables break law '%s'" % (cs, law), {"cs": cs, "law": law})
        ex = np.array([[[zval(e) / 6.0 for e in row] for row in R] for R in x["rot6"]])
        rots_exact[cs] = ex
        # call order matters when tables are shared between calls: permutations, rotations (twice), permutations again
        perm0 = np.array(symmetry.permutations(cs), dtype=float)
        got = symmetry.rotations(cs)
        got_copy = np.array(got, dtype=float)
        got2 = symmetry.rotations(cs)
        cached = symmetry.ROTATIONS[cs]
        perm = symmetry.permutations(cs)
        if not np.array_equal(np.asarray(perm, dtype=float), perm0):
            v.violation("permutations(%d) returns a different table after rotations(%d) was called (tables share storage)" % (cs, cs), {"cs": cs})
        if not np.array_equal(np.asarray(got2, dtype=float), got_copy) or not np.array_equal(np.asarray(got, dtype=float), got_copy):
            v.violation("rotations(%d) returns a different table on the second call / changes a table it returned before" % cs, {"cs": cs})
        if got.shape != ex.shape or not (np.abs(got - ex).max() <= 1e-12):
            v.violation("rotations(%d) differs from the exact rotations paired with permutations(%d) (max dev %.3g)" %
                        (cs, cs, float(np.abs(got - ex).max()) if got.shape == ex.shape else -1), {"cs": cs})
        if np.asarray(cached).shape != got.shape or not np.array_equal(np.asarray(cached), got):
            v.violation("cached ROTATIONS[%d] differs from rotations(%d)" % (cs, cs), {"cs": cs})
        # what the functions hand out is the caller's: overwrite it and ask again (tables, cache and Umis must be unaffected)
        try:
            ref_pair = (cay([1, 2, -1], 3), cay([-2, 1, 1], 2))
            before = np.asarray(symmetry.Umis(ref_pair[0], ref_pair[1], cs), dtype=float).copy()
            for obj in (got, got2, perm):
                arr = np.asarray(obj)
                if arr.flags.writeable:
                    arr *= 0
                    arr += 5
            after = np.asarray(symmetry.Umis(ref_pair[0], ref_pair[1], cs), dtype=float)
            again = np.asarray(symmetry.rotations(cs), dtype=float)
            pagain = np.asarray(symmetry.permutations(cs), dtype=float)
            if not np.array_equal(before, after) or again.shape != ex.shape or not (np.abs(again - ex).max() <= 1e-12) or not np.array_equal(pagain, perm0):
                v.violation("after the caller overwrote the arrays returned by rotations(%d)/permutations(%d), the functions or Umis answer differently "
                            "(results share storage with the module's tables or cache)" % (cs, cs), {"cs": cs})
            perm = pagain
            got = again
        except Exception as ex_:
            v.violation("rotations/permutations/Umis raised %r after the caller modified earlier results" % ex_, {"cs": cs})
        if not np.array_equal(perm, np.array(sym[cs - 1]["perm"], dtype=float)):
            v.violation("permutations(%d) returned a different table now than when the tables were exported a moment ago" % cs, {"cs": cs})
        # float-level pairing on a random conforming cell (tools and laue B)
        from xfab import tools, laue
        cell = {1: [3.1, 4.2, 5.3, 81., 95., 102.], 2: [3.1, 4.2, 5.3, 90., 99., 90.], 3: [3.1, 4.2, 5.3, 90., 90., 90.],
                4: [3.1, 3.1, 5.3, 90., 90., 90.], 5: [3.1, 3.1, 5.3, 90., 90., 120.], 6: [3.1, 3.1, 5.3, 90., 90., 120.],
                7: [3.1, 3.1, 3.1, 90., 90., 90.]}[cs]
        for mod in (tools, laue):
            B = mod.form_b_mat(cell)
            for i in range(len(got)):
                if not (np.abs(got[i].dot(B).dot(perm[i]) - B).max() <= 1e-9 * np.abs(B).max()):
                    v.violation("rotations(%d)[%d].B.permutations(%d)[%d] != B for the conforming cell %s (%s)" %
                                (cs, i, cs, i, cell, mod.__name__), {"cs": cs, "i": i, "cell": cell})
                    break
    for x in r.records:
        if x["kind"] != "umis":
            continue
        cs = x["cs"]
        U1 = np.array(x["N1"], dtype=float) / x["D1"]
        U2 = np.array(x["N2"], dtype=float) / x["D2"]
        n_umis += 1
        desc = {"cs": cs, "rodrigues1": [x["pair"][0], x["pair"][1]], "rodrigues2": [x["pair"][2], x["pair"][3]]}
        v.case(("umis", cs, repr(x["pair"])), sample=desc if len(v.samples) < 10 and cs == 6 else None)
        try:
            with L.switch_off(n_umis % 3 == 0):          # every third pair with the input checks switched off: same angles
                m, gm_ = L.twice(symmetry.Umis, U1, U2, cs)
            if gm_:
                v.violation(gm_ + " (crystal system %d)" % cs, desc)
        except Exception as ex:
            v.violation("Umis raised %r on proper rotations" % ex, desc)
            continue
        m = np.asarray(m)
        # exact rotations typed as integers (the identity, the 24 axis-aligned ones): same answer as for the same numbers as floats
        if np.array_equal(U1, np.rint(U1)) and np.array_equal(U2, np.rint(U2)):
            try:
                mi = np.asarray(symmetry.Umis(np.rint(U1).astype(int), np.rint(U2).astype(np.int64), cs), dtype=float)
                if mi.shape != m.shape or not np.all(np.isfinite(mi)) or not (np.abs(np.cos(np.radians(mi[:, 1])) - np.cos(np.radians(m[:, 1]))).max() <= 1e-9):
                    v.violation("Umis on integer-typed rotation matrices differs from Umis on the same matrices as floats (crystal system %d)" % cs, desc)
            except Exception as ex:
                v.violation("Umis raised %r on integer-typed proper rotations" % ex, desc)
        if m.shape != (len(x["cos"]), 2):
            v.violation("Umis returned shape %s, expected (%d,2)" % (m.shape, len(x["cos"])), desc)
            continue
        for k, cz in enumerate(x["cos"]):
            want = max(-1.0, min(1.0, (cz[0] + cz[1] * S3) / cz[2]))
            ang = m[k, 1]
            if not (0.0 <= ang <= 180.0) or int(round(m[k, 0])) != k:
                v.violation("Umis row %d: angle %r outside [0,180] or wrong index %r" % (k, ang, m[k, 0]), desc)
                break
            # compare angles where acos is well conditioned, cosines otherwise
            if not (abs(math.cos(math.radians(ang)) - want) <= 1e-9):
                v.violation("Umis(U1,U2,%d)[%d] = %.12g deg, cos = %.12g; the rotation U1'.U2.rot[%d]' has cos(angle) = %.12g exactly" %
                            (cs, k, ang, math.cos(math.radians(ang)), k, want), desc)
                break
        # metamorphic: multiset invariances
        base = np.sort(m[:, 1])
        R = rots_exact.get(cs)
        S = R[rng.randrange(len(R))]
        C = cay([rng.randint(-4, 4) for _ in range(3)], rng.randint(1, 4))
        for what, a, b in (("U1 -> U1.S", U1.dot(S), U2), ("U2 -> U2.S", U1, U2.dot(S)),
                           ("common left rotation", C.dot(U1), C.dot(U2)), ("swap", U2, U1)):
            try:
                mm = np.sort(np.asarray(symmetry.Umis(a, b, cs))[:, 1])
            except Exception as ex:
                v.violation("Umis raised %r on symmetry-equivalent input (%s)" % (ex, what), desc)
                continue
            # angles near 0/180 are ill conditioned in acos: compare cosines
            if not np.all(np.isfinite(mm)) or not (np.abs(np.cos(np.radians(mm)) - np.cos(np.radians(base))).max() <= 1e-9):
                v.violation("Umis multiset of angles changes under '%s' (crystal system %d)" % (what, cs), desc)
        uu = np.asarray(symmetry.Umis(U1, U1, cs))[:, 1]
        if not np.all(np.isfinite(uu)) or not (uu.min() <= 1e-5):
            v.violation("Umis(U,U,%d) does not contain 0 (min %.3g deg)" % (cs, uu.min()), desc)
        # the very same array object for both arguments is the same question as two equal arrays: angle k is the angle of operator k
        uc = np.asarray(symmetry.Umis(U1, U1.copy(), cs))[:, 1]
        if uu.shape != uc.shape or not (np.abs(np.cos(np.radians(uu)) - np.cos(np.radians(uc))).max() <= 1e-9):
            v.violation("Umis(U, U, %d) with one array object passed twice differs from Umis(U, copy of U, %d): %s vs %s" %
                        (cs, cs, np.round(uu, 6).tolist()[:6], np.round(uc, 6).tolist()[:6]), desc)
    # misorientations of 1e-3 .. 1e-6 rad (sub-grain boundaries, the refinement noise of one grain): U2 = U1.d with d a Cayley rotation
    # p/q, |p|/q = 5e-4 .. 5e-7 - too fine for 32-bit numerators, so the expected angles are evaluated in floating point from the
    # exact operator tables of the model: angle_k of d.R_k', small angles through the antisymmetric part (no arccos near 1)
    n_small = 0
    for cs in range(1, 8):
        R = rots_exact.get(cs)
        if R is None:
            continue
        for trial in range(6 if tier == "quick" else 60):
            U1 = cay([rng.randint(-5, 5) for _ in range(3)], rng.randint(1, 5))
            qd = rng.choice([1000, 10000, 100000, 1000000])
            pd = [rng.randint(-3, 3) for _ in range(3)]
            if not any(pd):
                pd = [1, 0, 0]
            d = cay(pd, qd)
            U2 = U1.dot(d)
            desc = {"cs": cs, "small_rotation_rodrigues": [pd, qd]}
            n_small += 1
            v.case(("small", cs, trial), sample=desc if len(v.samples) < 12 and trial == 0 and cs in (1, 7) else None)
            want = []
            for k in range(len(R)):
                M = d.dot(R[k].T)
                co = (np.trace(M) - 1.0) / 2.0
                si = 0.5 * math.sqrt((M[2, 1] - M[1, 2]) ** 2 + (M[0, 2] - M[2, 0]) ** 2 + (M[1, 0] - M[0, 1]) ** 2)
                want.append(math.degrees(math.atan2(si, co)))
            try:
                m = np.asarray(symmetry.Umis(U1, U2, cs), dtype=float)
            except Exception as ex:
                v.violation("Umis raised %r on two proper rotations %.3g rad apart" % (ex, 2 * math.atan(math.sqrt(sum(x * x for x in pd)) / qd)), desc)
                continue
            got = m[:, 1] if m.ndim == 2 and m.shape[1] == 2 else np.array([])
            if got.shape != (len(R),) or not np.all(np.isfinite(got)):
                v.violation("Umis returned %s for two proper rotations a small angle apart" % (m.shape,), desc)
                continue
            for k in range(len(R)):
                # arccos resolves an angle t to about delta/sin(t) rad (sqrt(delta) at exactly 0 or 180 degrees)
                delta = 4e-15                       # rounding of the trace of a product of three float matrices
                sn = abs(math.sin(math.radians(want[k])))
                tol = 1e-9 + math.degrees(delta / max(sn, math.sqrt(delta)))
                if not (abs(got[k] - want[k]) <= tol):
                    v.violation("Umis(U1, U1.d, %d)[%d] = %.9g deg; d is a rotation by %.9g deg and d.rot[%d]' one by %.9g deg" %
                                (cs, k, got[k], want[0], k, want[k]), desc)
                    break
    if v.violations:
        seen = {}
        for q in v.violations:
            seen.setdefault((q["case"].get("cs"), q["what"][:50]), q)
        v.violations = list(seen.values())
    cov = {"states": r.distinct, "transitions": r.generated, "traces_validated_against_impl": 7 + n_umis,
           "exhaustive": True, "umis_cases": n_umis,
           "rule": "7 crystal systems: 11 named laws each on the exported tables (all pairs of operators), exact rotations compared "
                   "with rotations()/ROTATIONS; Umis on %d seeded Cayley rotation pairs x 7 systems, every operation, plus 4 invariances" % len(pairs)}
    return v.finish("model_checking", cov, ASSUME)


def replay(path, seed):
    return run("quick", seed)
