"""Shared code for the exact-lattice checks (C01, C02, C13, C14, C18): concretisation of lattice points
to floats and projection of float results back to the exact (rational) side."""
import math

TWO_PI = 2.0 * math.pi
W = {"tools": 1, "laue": 0}          # 2pi weight of B matrices / g-vectors


def sym(m):
    import numpy as np
    return np.array([[m[0], m[5], m[4]], [m[5], m[1], m[3]], [m[4], m[3], m[2]]], dtype=float)


def cell_from_metric(m, u):
    """float cell whose direct metric tensor is u * Sym(m)"""
    g11, g22, g33, g23, g13, g12 = [u * x for x in m]
    a, b, c = math.sqrt(g11), math.sqrt(g22), math.sqrt(g33)
    return snap_cell([a, b, c, math.degrees(math.acos(g23 / (b * c))), math.degrees(math.acos(g13 / (a * c))),
                      math.degrees(math.acos(g12 / (a * b)))])


def snap_cell(cell):
    """A cell whose exact metric is of special form (equal axes, angles of exactly 60, 90, 120 degrees) comes out of sqrt/acos with the last
    bit off (119.99999999999999, b = a(1 + 2e-16)).  Users type [5, 5, 7, 90, 90, 120]: the float cell is snapped to those literals when it
    is within 1e-11 (relative) of them - fast paths that test `a == b` or `gamma == 120` are then really taken.  The change is 1e-13 of the
    cell, four orders below any tolerance used."""
    c = [float(x) for x in cell]
    for i in range(3, 6):
        for nice in (90.0, 120.0, 60.0, 45.0, 135.0):
            if abs(c[i] - nice) < 1e-9:
                c[i] = nice
    for i in range(3):
        for j in range(i):
            if abs(c[i] - c[j]) <= 1e-11 * abs(c[j]):
                c[i] = c[j]
    for i in range(4, 6):
        for j in range(3, i):
            if abs(c[i] - c[j]) <= 1e-11:
                c[i] = c[j]
    return c


def close(a, b, rel=1e-9, scale=None):
    import numpy as np
    a = np.asarray(a, dtype=float)
    b = np.asarray(b, dtype=float)
    if a.shape != b.shape:
        return False
    s = scale if scale is not None else max(1e-300, float(np.abs(b).max()) if b.size else 1.0)
    return bool(np.all(np.isfinite(a))) and float(np.abs(a - b).max()) <= rel * s


def cell_close(c1, c2, rel=1e-9):
    """six cell parameters: lengths relative, angles absolute in degrees (1e-7 deg)"""
    for i in range(3):
        if not (abs(c1[i] - c2[i]) <= rel * abs(c2[i])):
            return False
    for i in range(3, 6):
        if not (abs(c1[i] - c2[i]) <= 1e-7):
            return False
    return True


def upper_pos(M, rel=1e-9):
    import numpy as np
    M = np.asarray(M, dtype=float)
    s = np.abs(M).max()
    return abs(M[1, 0]) <= rel * s and abs(M[2, 0]) <= rel * s and abs(M[2, 1]) <= rel * s and \
        M[0, 0] > 0 and M[1, 1] > 0 and M[2, 2] > 0


def cayley(p, q):
    import numpy as np
    p = np.array(p, dtype=float)
    K = np.array([[0, -p[2], p[1]], [p[2], 0, -p[0]], [-p[1], p[0], 0]])
    D = q * q + p.dot(p)
    return ((q * q - p.dot(p)) * np.eye(3) + 2 * np.outer(p, p) + 2 * q * K) / D


def exact_metric_record(G, hkls, path):
    """det G, adj G and Q*(h) with unbounded Python integers - the same formulas as IntAlg.tla (Adj, Det, QuadForm).
    Used for lattice points whose products do not fit TLC's 32-bit integers (nearly orthogonal cells need metric entries of
    1e5); the identities these formulas satisfy are proved for ALL integers by Apalache (spec/apalache/Identities.tla)."""
    g11, g22, g33, g23, g13, g12 = [int(x) for x in G]
    a11 = g22 * g33 - g23 * g23
    a22 = g11 * g33 - g13 * g13
    a33 = g11 * g22 - g12 * g12
    a12 = g13 * g23 - g12 * g33
    a13 = g12 * g23 - g13 * g22
    a23 = g12 * g13 - g11 * g23
    det = g11 * a11 + g12 * a12 + g13 * a13
    adj = [a11, a22, a33, a23, a13, a12]
    q = []
    for h in hkls:
        q.append([list(h), a11 * h[0] * h[0] + a22 * h[1] * h[1] + a33 * h[2] * h[2]
                  + 2 * a23 * h[1] * h[2] + 2 * a13 * h[0] * h[2] + 2 * a12 * h[0] * h[1]])
    return {"G": list(G), "path": list(path), "det": det, "adj": adj, "q": q}


def as_container(x, k):
    """the same numbers in different containers (list, tuple, float array): the API accepts all of them"""
    import numpy as np
    # documented argument form is a list; numpy arrays are what callers pass in practice; tuples are not promised
    if k % 3 == 0:
        return list(x)
    if k % 3 == 1:
        return np.array(x, dtype=float)
    # a buffer the caller reuses: the SAME array object, refilled in place for every call (a cache keyed on the identity of its
    # argument answers for the previous contents)
    a = np.array(x, dtype=float)
    buf = _BUFFERS.setdefault(a.shape, np.zeros(a.shape))
    buf[...] = a
    return buf


_BUFFERS = {}


_KEPT = {}


def _snap(x):
    import copy
    import numpy as np
    if isinstance(x, np.ndarray):
        return x.copy()
    try:
        return copy.deepcopy(x)
    except Exception:
        return x


def _same(a, b):
    import numpy as np
    try:
        if isinstance(a, tuple) or isinstance(b, tuple):
            return isinstance(a, tuple) and isinstance(b, tuple) and len(a) == len(b) and all(_same(p, q) for p, q in zip(a, b))
        p, q = np.asarray(a, dtype=float), np.asarray(b, dtype=float)
        return p.shape == q.shape and bool(np.array_equal(p, q, equal_nan=True))
    except Exception:
        try:
            return a == b
        except Exception:
            return True


def twice(f, *args):
    """Call f on the given argument objects with three guards that turn hidden state into an observable difference:
      1. the arguments are compared with a snapshot taken before the call (a function that modifies the caller's array in place
         breaks every later conversion of the same object);
      2. f is called a second time on the SAME objects and must return the same value (stale caches, self-inflicted mutation);
      3. results returned earlier by the same function in this process are compared with snapshots taken when they were returned
         (a result that is a view of a module-level scratch buffer is overwritten by the next call).
    Returns (first result, message or None)."""
    import numpy as np
    name = getattr(f, "__module__", "?") + "." + getattr(f, "__name__", "function")
    snaps = [_snap(a) for a in args]
    r1 = f(*args)
    msg = None
    if not all(_same(a, s_) for a, s_ in zip(args, snaps)):
        msg = "%s modifies its argument in place (the caller's object differs after the call)" % name
    keep1 = _snap(r1)
    r2 = f(*args)
    if msg is None and not _same(r1, r2):
        msg = "%s gives a different result when called a second time with the same argument objects" % name
    # 4. what a function returns is the caller's to modify: the second result is overwritten in place and the function called a
    #    third time (a memo that hands out its own stored array is corrupted by the first caller who scales "his" matrix)
    try:
        parts = [q for q in (r2 if isinstance(r2, tuple) else (r2,)) if isinstance(q, np.ndarray) and q.flags.writeable and q.size
                 and q.dtype.kind in "fiu"]
        lists = [q for q in (r2 if isinstance(r2, tuple) else (r2,)) if isinstance(q, list) and q
                 and all(isinstance(t, (int, float, np.floating, np.integer)) and not isinstance(t, bool) for t in q)]
        if lists and not parts and msg is None:
            same_obj = any(q is p_ for q in lists for p_ in (r1 if isinstance(r1, tuple) else (r1,)))
            for q in lists:
                q[0] = q[0] * 3 + 1
                q.append(12345.0)
            r3 = f(*args)
            if not _same(r3, keep1):
                msg = "%s: changing a list it returned changes what it returns next (it hands out storage it keeps using)" % name
            if same_obj:
                r1 = keep1
        own = [q for q in parts if not any(isinstance(a, np.ndarray) and np.shares_memory(a, q) for a in args)]
        shared_with_first = any(np.shares_memory(q, p_) for q in own
                                for p_ in (r1 if isinstance(r1, tuple) else (r1,)) if isinstance(p_, np.ndarray))
        if own and msg is None:
            for q in own:
                q *= 3
                q += 1
            r3 = f(*args)
            if not _same(r3, keep1):
                msg = "%s: overwriting an array it returned changes what it returns next (it hands out storage it keeps using)" % name
            if shared_with_first:
                r1 = keep1 if not isinstance(keep1, tuple) else keep1
    except Exception as ex_:
        if msg is None:
            msg = "%s: third call after the caller modified the returned array raised %r" % (name, ex_)
    if msg is None and not _same(r1, keep1):
        msg = "%s: the value returned by the first call changed when the function was called again" % name
    old = _KEPT.setdefault(name, [])
    if msg is None:
        for (obj, snap) in old:
            if not _same(obj, snap):
                msg = "%s: a value returned by an earlier call was changed by a later call (results share storage)" % name
                break
    import numpy as np
    try:
        alias = any(isinstance(a, np.ndarray) and isinstance(q, np.ndarray) and np.shares_memory(a, q)
                    for a in args for q in (r1 if isinstance(r1, tuple) else (r1,)))
    except Exception:
        alias = False
    if not alias:          # a result that is (a view of) the caller's own array legitimately follows that array
        old.append((r1, keep1))
    if len(old) > 4:
        del old[0]
    return r1, msg


class switch_off(object):
    """with switch_off(cond): ... runs the block with xfab.CHECKS.activated = False when cond is true, and restores the switch"""

    def __init__(self, cond=True):
        self.cond = cond

    def __enter__(self):
        import xfab
        self.was = xfab.CHECKS.activated
        if self.cond:
            xfab.CHECKS.activated = False
        return self.cond

    def __exit__(self, *exc):
        import xfab
        xfab.CHECKS.activated = self.was
        return False
