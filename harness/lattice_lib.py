"""Shared code for the exact-lattice checks (C01, C02, C13, C14, C18): concretisation of lattice points
to floats and projection of float results back to the exact (rational) side."""
import math

TWO_PI = 2.0 * math.pi
W = {"tools": 1, "laue": 0}          # 2pi weight of B matrices / g-vectors


def sym(m):
    import numpy as np
    return np.array([[m[0], m[5], m[4]], [m[5], m[1], m[3]], [m[4], m[3], m[2]]], dtype=float)


def cell_from_metric(m, u):
    """float cell whose direct metric tensor is u * Sym(m)"""
    g11, g22, g33, g23, g13, g12 = [u * x for x in m]
    a, b, c = math.sqrt(g11), math.sqrt(g22), math.sqrt(g33)
    return [a, b, c, math.degrees(math.acos(g23 / (b * c))), math.degrees(math.acos(g13 / (a * c))),
            math.degrees(math.acos(g12 / (a * b)))]


def close(a, b, rel=1e-9, scale=None):
    import numpy as np
    a = np.asarray(a, dtype=float)
    b = np.asarray(b, dtype=float)
    if a.shape != b.shape:
        return False
    s = scale if scale is not None else max(1e-300, float(np.abs(b).max()) if b.size else 1.0)
    return bool(np.all(np.isfinite(a))) and float(np.abs(a - b).max()) <= rel * s


def cell_close(c1, c2, rel=1e-9):
    """six cell parameters: lengths relative, angles absolute in degrees (1e-7 deg)"""
    for i in range(3):
        if not (abs(c1[i] - c2[i]) <= rel * abs(c2[i])):
            return False
    for i in range(3, 6):
        if not (abs(c1[i] - c2[i]) <= 1e-7):
            return False
    return True


def upper_pos(M, rel=1e-9):
    import numpy as np
    M = np.asarray(M, dtype=float)
    s = np.abs(M).max()
    return abs(M[1, 0]) <= rel * s and abs(M[2, 0]) <= rel * s and abs(M[2, 1]) <= rel * s and \
        M[0, 0] > 0 and M[1, 1] > 0 and M[2, 2] > 0


def cayley(p, q):
    import numpy as np
    p = np.array(p, dtype=float)
    K = np.array([[0, -p[2], p[1]], [p[2], 0, -p[0]], [-p[1], p[0], 0]])
    D = q * q + p.dot(p)
    return ((q * q - p.dot(p)) * np.eye(3) + 2 * np.outer(p, p) + 2 * q * K) / D


def exact_metric_record(G, hkls, path):
    """det G, adj G and Q*(h) with unbounded Python integers - the same formulas as IntAlg.tla (Adj, Det, QuadForm).
    Used for lattice points whose products do not fit TLC's 32-bit integers (nearly orthogonal cells need metric entries of
    1e5); the identities these formulas satisfy are proved for ALL integers by Apalache (spec/apalache/Identities.tla)."""
    g11, g22, g33, g23, g13, g12 = [int(x) for x in G]
    a11 = g22 * g33 - g23 * g23
    a22 = g11 * g33 - g13 * g13
    a33 = g11 * g22 - g12 * g12
    a12 = g13 * g23 - g12 * g33
    a13 = g12 * g23 - g13 * g22
    a23 = g12 * g13 - g11 * g23
    det = g11 * a11 + g12 * a12 + g13 * a13
    adj = [a11, a22, a33, a23, a13, a12]
    q = []
    for h in hkls:
        q.append([list(h), a11 * h[0] * h[0] + a22 * h[1] * h[1] + a33 * h[2] * h[2]
                  + 2 * a23 * h[1] * h[2] + 2 * a13 * h[0] * h[2] + 2 * a12 * h[0] * h[1]])
    return {"G": list(G), "path": list(path), "det": det, "adj": adj, "q": q}


def as_container(x, k):
    """the same numbers in different containers (list, tuple, float array): the API accepts all of them"""
    import numpy as np
    # documented argument form is a list; numpy arrays are what callers pass in practice; tuples are not promised
    if k % 2 == 0:
        return list(x)
    return np.array(x, dtype=float)


def twice(f, *args):
    """call f twice on the SAME argument objects: a function that mutates its input or answers from a stale cache
    gives a different second answer; returns (first result, text or None)"""
    import numpy as np
    r1 = f(*args)
    r2 = f(*args)
    try:
        a1 = [np.asarray(q, dtype=float) for q in (r1 if isinstance(r1, tuple) else (r1,))]
        a2 = [np.asarray(q, dtype=float) for q in (r2 if isinstance(r2, tuple) else (r2,))]
        same = len(a1) == len(a2) and all(p.shape == q.shape and np.array_equal(p, q, equal_nan=True) for p, q in zip(a1, a2))
    except Exception:
        same = True
    return r1, (None if same else "%s gives a different result when called a second time with the same argument objects" % getattr(f, "__name__", "function"))
