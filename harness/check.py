"""./check <ID> [--tier quick|thorough] [--replay file]"""
import argparse
import importlib
import os
import sys
import traceback

sys.path.insert(0, os.path.dirname(os.path.abspath(__file__)))
import common  # noqa: E402


def main():
    ap = argparse.ArgumentParser()
    ap.add_argument("pid")
    ap.add_argument("--tier", default=os.environ.get("VERIF_TIER", "quick"), choices=["quick", "thorough"])
    ap.add_argument("--replay", default=None)
    a = ap.parse_args()
    pid = a.pid.upper()
    try:
        seed = int(os.environ.get("VERIF_SEED", "0") or 0)
    except ValueError:
        seed = 0
    try:
        mod = importlib.import_module(pid.lower())
    except ImportError as ex:
        print("no check for %s: %s" % (pid, ex))
        return 2
    try:
        common.use_repo()
        common.workdir(pid, wipe=not a.replay)
        import numpy as _np
        err0 = dict(_np.geterr())
        common.package_in_use()
        if os.environ.get("VERIF_LOGLEVEL") != "default":
            # likewise the logging level: the checks run with the package's loggers at DEBUG (records formatted, written to a null stream):
            # what a debug message computes on the way must not touch the data
            import logging as _logging
            _null = open(os.devnull, "w")
            for _nm in ("xfab", "xfab.tools", "xfab.laue", "xfab.structure", "xfab.symmetry", "xfab.detector", "xfab.sg", "xfab.parameters", "xfab.checks"):
                _lg = _logging.getLogger(_nm)
                _lg.setLevel(_logging.DEBUG)
                for _h in _lg.handlers:
                    try:
                        _h.setStream(_null)
                    except Exception:
                        pass
        if os.environ.get("VERIF_ERRSTATE") != "warn":
            # the caller's numpy error state is part of the conditions the package runs under: the checks run with division by zero and
            # invalid operations RAISING (a strict caller; the unchanged tree passes every check this way), the import-order probes in
            # fresh interpreters run with numpy's defaults.  Underflow and overflow stay at their defaults (exp(-800) = 0 is legitimate).
            _np.seterr(divide="raise", invalid="raise")
            err0 = dict(_np.geterr())
        if a.replay:
            return mod.replay(a.replay, seed)
        return mod.run(a.tier, seed)
    except common.MachineryError as ex:
        print("MACHINERY-FAILURE %s: %s" % (pid, ex))
        return 2
    except Exception as ex:
        text = "".join(traceback.format_exception(type(ex), ex, ex.__traceback__))
        sys.stdout.write(text)
        # An exception that escapes from INSIDE the code under test, at a call the harness makes without a guard because the
        # unchanged code answers it, is a behaviour of the code on an input inside the property's quantifier - a violation, not
        # a failure of the machinery.  Decided by the innermost frame of the (possibly remote, for worker processes) traceback.
        import re
        frames = re.findall(r'File "([^"]+)", line (\d+), in (\S+)', text)
        root = os.path.join(common.REPO, "xfab") + os.sep
        state_changed = False
        try:
            import numpy as _np2
            state_changed = isinstance(ex, FloatingPointError) and dict(_np2.geterr()) != err0
        except Exception:
            pass
        if state_changed and not (frames and frames[-1][0].startswith(root)):
            # numpy's process-wide error state was switched to 'raise' by the package (the harness never touches it): ordinary
            # arithmetic on valid inputs now raises, inside the package or in whoever uses its results
            frames = frames + [(root + "(process-wide numpy error state)", "0", "seterr")]
        if frames and frames[-1][0].startswith(root):
            try:
                v = common.Verdict(pid, a.tier, seed)
                last = text.strip().splitlines()[-1]
                v.violation("xfab raised %s at %s:%s (%s) on an input inside the property's quantifier that the harness passes without "
                            "a guard" % (last[:160], frames[-1][0][len(common.REPO) + 1:], frames[-1][1], frames[-1][2]),
                            {"traceback": text[-4000:]})
                return v.finish("model_checking", {"states": 1, "transitions": 1, "traces_validated_against_impl": 1, "exhaustive": False,
                                                   "rule": "run aborted by an exception raised inside the code under test"},
                                ["aborted run: only the exception is reported"])
            except Exception:
                traceback.print_exc()
        print("MACHINERY-FAILURE %s: unexpected exception" % pid)
        return 2


if __name__ == "__main__":
    sys.exit(main())
