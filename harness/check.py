"""./check <ID> [--tier quick|thorough] [--replay file]"""
import argparse
import importlib
import os
import sys
import traceback

sys.path.insert(0, os.path.dirname(os.path.abspath(__file__)))
import common  # noqa: E402


def main():
    ap = argparse.ArgumentParser()
    ap.add_argument("pid")
    ap.add_argument("--tier", default=os.environ.get("VERIF_TIER", "quick"), choices=["quick", "thorough"])
    ap.add_argument("--replay", default=None)
    a = ap.parse_args()
    pid = a.pid.upper()
    try:
        seed = int(os.environ.get("VERIF_SEED", "0") or 0)
    except ValueError:
        seed = 0
    try:
        mod = importlib.import_module(pid.lower())
    except ImportError as ex:
        print("no check for %s: %s" % (pid, ex))
        return 2
    try:
        common.use_repo()
        common.workdir(pid, wipe=not a.replay)
        if a.replay:
            return mod.replay(a.replay, seed)
        return mod.run(a.tier, seed)
    except common.MachineryError as ex:
        print("MACHINERY-FAILURE %s: %s" % (pid, ex))
        return 2
    except Exception:
        traceback.print_exc()
        print("MACHINERY-FAILURE %s: unexpected exception" % pid)
        return 2


if __name__ == "__main__":
    sys.exit(main())
