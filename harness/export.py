"""E-binding: export the implementation's own data from the tree under test to JSON constants.

Nothing here is a golden snapshot: every call re-reads the working tree. The specification
contains the laws the data must satisfy, never a copy of the data.
"""
import json
import os

import common

RHOMBO = None


def _all_settings(sglib):
    out = []
    for no in range(1, 231):
        out.append((no, "standard"))
    for no in range(1, 231):
        k = getattr(sglib, "Sg%d" % no, None)
        if k is None:
            continue
        try:
            a = k(cell_choice="standard")
            b = k(cell_choice="rhombohedral")
        except Exception:
            continue
        if (a.nsymop, a.name, str(a.rot)) != (b.nsymop, b.name, str(b.rot)):
            out.append((no, "rhombohedral"))
    return out


def to24(x):
    """translation component -> (integer 24ths in 0..23, ok)"""
    v = float(x) * 24.0
    r = round(v)
    ok = abs(v - r) <= 24 * 1e-4
    return int(r) % 24, ok


def table_record(obj, no, setting):
    import numpy as np
    rot = np.array(obj.rot)
    trans = np.array(obj.trans, dtype=float)
    bad = []
    rint = np.rint(rot).astype(int)
    if rot.size and np.abs(rot - rint).max() > 0:
        bad.append("non-integer rotation entry")
    t24 = []
    for row in trans:
        r = []
        for x in row:
            v, ok = to24(x)
            if not ok:
                bad.append("translation %r is not within 1e-4 of a 24th" % float(x))
            r.append(v)
        t24.append(r)
    thirds = bool(len(trans)) and bool(np.any(np.abs(trans * 24 - np.rint(trans * 24)) > 1e-9))
    return {
        "no": int(no), "setting": setting, "name": chars(str(obj.name)), "name_text": str(obj.name),
        "crystal_system": str(obj.crystal_system), "Laue": str(obj.Laue),
        "nsymop": int(obj.nsymop), "nuniq": int(obj.nuniq), "cell_choice": str(obj.cell_choice),
        "syscond": [int(x) for x in obj.syscond],
        "rot": rint.tolist(), "trans": t24, "bad": bad, "thirds": thirds,
        "own_no": int(obj.no),
    }


def export_groups():
    """All 237 tables as instantiated through sglib classes directly."""
    common.use_repo()
    from xfab import sglib
    tabs = []
    for no, setting in _all_settings(sglib):
        k = getattr(sglib, "Sg%d" % no)
        tabs.append(table_record(k(cell_choice=setting), no, setting))
    return tabs


def chars(s):
    return [ord(c) for c in s]


def export_dictionary():
    common.use_repo()
    from xfab import sg
    out = []
    for k in sg.sgdic:
        v = sg.sgdic[k]
        no = int(v[2:]) if v.startswith("Sg") and v[2:].isdigit() else -1
        out.append({"key": chars(k), "text": k, "no": no})
    return out


def export_symmetry():
    common.use_repo()
    from xfab import symmetry
    import numpy as np
    out = []
    for cs in range(1, 8):
        p = symmetry.permutations(cs)
        pint = np.rint(p).astype(int)
        out.append({"cs": cs, "perm": pint.tolist(), "integral": bool(np.abs(p - pint).max() == 0)})
    return out


def export_formfactor():
    common.use_repo()
    from xfab import atomlib
    out = []
    for el in atomlib.formfactor:
        d = atomlib.formfactor[el]
        out.append({"el": el, "sym": chars(el), "c": [int(round(float(x) * 1000000)) for x in d],
                    "n": len(d)})
    return out


def write_tables_module(wd):
    """Generate XfabTables.tla (Tables, Dict) in the work directory; returns (tables, dict)."""
    tabs = export_groups()
    dic = export_dictionary()
    t2 = []
    for t in tabs:
        u = dict(t)
        u.pop("name_text")
        u.pop("thirds")
        t2.append(u)
    common.write_data_module(wd, "XfabTables", {
        "Tables": t2, "Dict": [{"key": d["key"], "no": d["no"]} for d in dic]})
    return tabs, dic


def write(path, obj):
    os.makedirs(os.path.dirname(path), exist_ok=True)
    with open(path, "w") as f:
        json.dump(obj, f)
    return path
