"""C07 - structure factors transform correctly under the space-group operations.

TLC (spec/StructFac.tla) accumulates the sum over the operations one per step on exact positions and emits, for every
operation k, the rotated index hR_k and the exact phase shift h.t_k (24ths), plus the extinction flag; it checks
orbit-stabiliser, that composing with an operation permutes the operations (closure), that an extinct reflection's
phases cancel exactly and Friedel symmetry of the phase indices.  Replay (metamorphic, exact shift from TLC):
StructureFactor(hR_k) = StructureFactor(h) exp(-2 pi i h.t_k), F = 0 on extinct reflections, F(-h) = conj F(h).
"""
import cmath
import math
import random
import warnings

import common
import export
import genhkl_lib as gl
import sf_lib as S

ASSUME = [
    "cells conform to the crystal system/setting (float images of integer reciprocal metrics), so sin(theta)/lambda is the same on an orbit",
    "tolerance S*(1e-9 + 2pi*|h|_1*1e-6*[tables store thirds as 0.333333]) with S the total scattering power",
    "atoms at generic float positions with symmulti = nsymop; Uiso and generic positive-definite Uani; occupancies in (0,1]",
]


def worker(a):
    rec, tab, cell, atoms_spec, ks = a
    import numpy as np
    out = []
    n = 0
    h = rec["cs"]["h"]
    atoms = [S.make_atom(*sp) for sp in atoms_spec]
    name = tab["name_text"]
    scat = sum(sp[5] * sp[6] * 30.0 for sp in atoms_spec)
    tol = scat * (1e-9 + (2 * math.pi * sum(abs(x) for x in h) * 1e-6 if tab["thirds"] else 0.0))
    tag = "Sg%d %s hkl %s" % (tab["no"], name, h)
    try:
        F0 = S.call_sf(h, cell, name, atoms)
        n += 1
        if rec["extinct"] and not (abs(F0) <= tol):
            out.append("F = %r for a reflection extinguished by the space group (|F| must be 0 within %.2g) (%s)" % (F0, tol, tag))
        Fm = S.call_sf([-x for x in h], cell, name, atoms)
        n += 1
        if not (abs(Fm - F0.conjugate()) <= tol):
            out.append("F(-h) = %r is not the complex conjugate of F(h) = %r without dispersion (%s)" % (Fm, F0, tag))
        for k in ks:
            g, sh = rec["ops"][k]
            Fk = S.call_sf(g, cell, name, atoms)
            n += 1
            want = F0 * cmath.exp(-2j * math.pi * sh / 24.0)
            if not (abs(Fk - want) <= tol):
                kinds = [str(sp[3]) for sp in atoms_spec]
                out.append("F(hR) = %r for operation %d (hR = %s, h.t = %d/24), expected F(h).exp(-2 pi i h.t) = %r (|diff| %.3g > %.2g; adp types %s) (%s)" %
                           (Fk, k + 1, g, sh, want, abs(Fk - want), tol, kinds, tag))
                break
    except Exception as ex:
        out.append("exception %r (%s)" % (ex, tag))
    return n, out


def run(tier, seed):
    warnings.simplefilter("ignore")
    v = common.Verdict("C07", tier, seed)
    wd = common.workdir("C07")
    tabs, dic = export.write_tables_module(wd)
    rng = random.Random(seed + 7)
    nh = 4 if tier == "quick" else 16
    cases = []
    import numpy as np
    for ti, t in enumerate(tabs, start=1):
        R = [np.array(r) for r in t["rot"]]
        T = [np.array(x) for x in t["trans"]]
        hs = set()
        # prefer a few extinct candidates (selection only - the verdict flag comes from the model)
        tries = 0
        while len(hs) < nh and tries < 400:
            tries += 1
            h = tuple(rng.randint(-8, 8) for _ in range(3)) if tries > 120 or len(hs) >= nh // 2 else tuple(rng.randint(-3, 3) for _ in range(3))
            if h == (0, 0, 0):
                continue
            ext = any(np.array_equal(np.array(h).dot(Rm), np.array(h)) and int(np.array(h).dot(tv)) % 24 != 0 for Rm, tv in zip(R, T))
            if len(hs) < nh // 2 and not ext and tries <= 120:
                continue
            hs.add(h)
        p = [rng.randint(1, 239) for _ in range(3)]
        for h in sorted(hs):
            cases.append({"t": ti, "N": 240, "p": p, "h": list(h)})
    common.write_data_module(wd, "SfCases", {"Cases": common.TlaSet(cases)})
    r = common.run_tlc("StructFac", "MC_StructFac.cfg", wd, timeout=3000, heap="12g")
    if r.violated:
        # these invariants rest on the group laws of the exported tables
        v.violation("StructFac.tla invariant(s) violated on the exported tables: %s" % r.violated, {"invariants": r.violated})
    todo = []
    cells = {}
    for x in r.records:
        t = tabs[x["cs"]["t"] - 1]
        key = x["cs"]["t"]
        if key not in cells:
            met = gl.conforming_metrics(t["crystal_system"], t["cell_choice"], rng, 2)[-1]
            c = 0.01 * rng.uniform(0.7, 1.6)
            cells[key] = (met, c, gl.cell_from_recip_metric(met, c))
        met, c, cell = cells[key]
        spec = []
        # every kind of displacement in every order: an atom without displacement right after an anisotropic one, after an isotropic one, first
        orders = [["Uiso", "Uani"], ["Uani", None, "Uiso"], [None, "Uani", None], ["Uani", "Uiso", None, "Uani"], ["Uiso", None]]
        kinds_ = ["Uiso", "Uani", "Uani", None] if tier == "thorough" else orders[len(todo) % len(orders)]
        if len(todo) % 23 == 7 and len(x["ops"]) <= 16:
            kinds_ = [rng.choice(["Uani", "Uiso", None, "Uani"]) for _ in range(rng.choice([17, 18, 33]))]        # more atoms than a small buffer holds
        for i, kind in enumerate(kinds_):
            pos = [rng.uniform(0.03, 0.97) for _ in range(3)]
            adp = rng.uniform(0.005, 0.05) if kind == "Uiso" else (S.random_uani(rng, met, c) if kind == "Uani" else 0.0)
            if kind == "Uani" and (len(todo) + i) % 3 == 0:
                adp = [rng.uniform(0.004, 0.03), rng.uniform(0.004, 0.03), rng.uniform(0.004, 0.03), 0.0, 0.0, 0.0]      # no cross terms: still a tensor
            spec.append(("A%d" % i, rng.choice(S.ELEMENTS), pos, kind, adp, rng.uniform(0.2, 1.0), t["nsymop"]))
        nops = len(x["ops"])
        ks = list(range(nops))
        if tier == "quick" and nops > 16:
            fixing = [k for k in ks if x["ops"][k][0] == x["cs"]["h"]]
            ks = sorted(set(fixing[:6] + rng.sample(ks, 12)))
        todo.append((x, t, cell, spec, ks))
    res = common.pmap(worker, todo, chunk=2)
    ncalls = 0
    next_ = 0
    for (x, t, cell, spec, ks), (n, out) in zip(todo, res):
        ncalls += n
        next_ += 1 if x["extinct"] else 0
        v.case((t["no"], t["setting"], tuple(x["cs"]["h"])),
               sample={"sg": [t["no"], t["name_text"]], "hkl": x["cs"]["h"], "extinct": x["extinct"], "cell": cell,
                       "first_ops": x["ops"][:3]} if len(v.samples) < 3 and t["nuniq"] >= 6 else None)
        for o in out[:2]:
            v.violation(o, {"sg": [t["no"], t["setting"], t["name_text"]], "hkl": x["cs"]["h"], "cell": cell,
                            "atoms": [list(sp[:2]) + [sp[2], sp[3], sp[4] if isinstance(sp[4], float) else list(sp[4]), sp[5], sp[6]] for sp in spec]})
    if v.violations:
        seen = {}
        for q in v.violations:
            seen.setdefault(tuple(q["case"].get("sg", ["model"])[:2]), q)
        v.notes.append("%d violating reflections in %d settings" % (len(v.violations), len(seen)))
        v.violations = list(seen.values())
        v.max_replays = 40
    cov = {"states": r.distinct, "transitions": r.generated, "traces_validated_against_impl": len(todo),
           "structure_factor_calls": ncalls, "settings": len(tabs), "extinct_reflections": next_, "exhaustive": False,
           "rule": "case = (setting, hkl in +-8 with extinct ones preferred for half of them); every operation (quick: up to 18 per reflection "
                   "for groups with > 16 operations) replayed with 2-3 atoms (Uiso + generic Uani)"}
    return v.finish("model_checking", cov, ASSUME)


def replay(path, seed):
    return run("quick", seed)
