"""C10 - detector pixel of a reflection lies on its scattered ray on the tilted detector.

TLC (spec/Detector.tla) emits the exact tilt matrix (Rx Ry Rz over Pythagorean angles) and the exact unit ray
direction; the harness chooses distance, pixel sizes, beam centre, a rational pixel and a rational ray parameter and
forms the detector point and the grain position with exact fractions (pixel-first construction, no division).
det_coor2 / det_coor must return that pixel, detector_to_lab the detector point, det_v the direction, detect_tilt
the matrix.
"""
import math
import random
import warnings
from fractions import Fraction as Fr

import common
import lattice_lib as Lg

ASSUME = [
    "exact fractions for the detector point and grain position; floats only when calling the code; tolerance 1e-9 relative to the "
    "pixel magnitude (>= 1)",
    "grain offsets are within about 2 mm because the pixel is the rounded hit point of a chosen offset of at most 2 mm",
]
TTH = [(4, 3, 5), (12, 5, 13), (24, 7, 25), (15, 8, 17), (63, 16, 65), (99, 20, 101), (399, 40, 401), (9999, 200, 10001),
       (39999, 400, 40001), (3, 4, 5)]
TILT = [(1, 0, 1), (24, 7, 25), (24, -7, 25), (99, 20, 101), (99, -20, 101), (63, 16, 65), (63, -16, 65)]


def angles():
    A = {(1, 0, 1), (0, 1, 1), (-1, 0, 1), (0, -1, 1)}
    for (a, b, d) in [(3, 4, 5), (5, 12, 13), (8, 15, 17), (7, 24, 25), (20, 21, 29)]:
        for (x, y) in ((a, b), (b, a)):
            for sx in (1, -1):
                for sy in (1, -1):
                    A.add((sx * x, sy * y, d))
    return sorted(A)


def worker(a):
    x, pars = a
    import importlib
    import numpy as np
    from xfab import detector
    cs = x["cs"]
    out = []
    R = [[Fr(e, x["rden"]) for e in row] for row in x["R"]]
    v = [Fr(e, x["vden"]) for e in x["v"]]
    L, py, pz, y0, z0, pos0 = pars
    # pixel-first: estimate the hit point of a ray from pos0, round the pixel, then define everything exactly from it
    n = [R[0][0], R[1][0], R[2][0]]
    nv = sum(n[i] * v[i] for i in range(3))
    t0 = (n[0] * (L - pos0[0]) - n[1] * pos0[1] - n[2] * pos0[2]) / nv
    hit = [pos0[i] + t0 * v[i] for i in range(3)]
    d = [hit[0] - L, hit[1], hit[2]]
    dety0 = sum(R[i][1] * d[i] for i in range(3)) / py + y0
    detz0 = sum(R[i][2] * d[i] for i in range(3)) / pz + z0
    dety = Fr(round(dety0 * 8), 8)
    detz = Fr(round(detz0 * 8), 8)
    t = Fr(round(t0 * 64), 64)
    loc = [Fr(0), py * (dety - y0), pz * (detz - z0)]
    P = [(L if i == 0 else 0) + sum(R[i][k] * loc[k] for k in range(3)) for i in range(3)]
    pos = [P[i] - t * v[i] for i in range(3)]
    f = float
    Rf = np.array([[f(e) for e in row] for row in R])
    tth, eta = math.atan2(cs["tth"][1], cs["tth"][0]), math.atan2(cs["eta"][1], cs["eta"][0])
    tag = "L=%s py=%s pz=%s centre=(%s,%s) tilt=(%.4f,%.4f,%.4f) 2theta=%.4f deg eta=%.4f pixel=(%s,%s) grain=%s" % (
        L, py, pz, y0, z0, math.atan2(cs["tx"][1], cs["tx"][0]), math.atan2(cs["ty"][1], cs["ty"][0]),
        math.atan2(cs["tz"][1], cs["tz"][0]), math.degrees(tth), eta, dety, detz, [round(f(q), 4) for q in pos])
    scale = max(1.0, abs(f(dety)), abs(f(detz)))
    want = np.array([f(dety), f(detz)])
    try:
        c2_, m2_ = Lg.twice(detector.det_coor2, tth, eta, f(L), f(py), f(pz), f(y0), f(z0), Rf, f(pos[0]), f(pos[1]), f(pos[2]))
        if m2_:
            out.append(m2_ + " (%s)" % tag)
        c2 = np.array(c2_, dtype=float)
        if not np.all(np.isfinite(c2)) or not (np.abs(c2 - want).max() <= 1e-9 * scale):
            out.append("det_coor2 gives pixel %s, the ray from the grain along (2theta, eta) meets the detector at %s (%s)" % (c2.tolist(), want.tolist(), tag))
        lam = 0.4
        Gt = np.array([0.0, 2 * math.pi * f(v[1]) / lam, 2 * math.pi * f(v[2]) / lam])
        # "for all eta": the same azimuth one turn further, or one turn back, is the same ray
        for sh_ in (2 * math.pi, -2 * math.pi):
            cs_ = np.array(detector.det_coor2(tth, eta + sh_, f(L), f(py), f(pz), f(y0), f(z0), Rf, f(pos[0]), f(pos[1]), f(pos[2])), dtype=float)
            if not np.all(np.isfinite(cs_)) or not (np.abs(cs_ - want).max() <= 1e-8 * scale):
                out.append("det_coor2 at eta %+.4f (the same azimuth, one turn away) gives %s, expected %s (%s)" % (eta + sh_, cs_.tolist(), want.tolist(), tag))
                break
        c1_, m1_ = Lg.twice(detector.det_coor, Gt, f(v[0]), lam, f(L), f(py), f(pz), f(y0), f(z0), Rf, f(pos[0]), f(pos[1]), f(pos[2]))
        if m1_:
            out.append(m1_ + " (%s)" % tag)
        c1 = np.array(c1_, dtype=float)
        if not np.all(np.isfinite(c1)) or not (np.abs(c1 - want).max() <= 1e-9 * scale):
            out.append("det_coor gives pixel %s for the same ray, expected %s (%s)" % (c1.tolist(), want.tolist(), tag))
        if not (np.abs(c1 - c2).max() <= 1e-9 * scale):
            out.append("det_coor and det_coor2 disagree for the same scattered ray: %s vs %s (%s)" % (c1.tolist(), c2.tolist(), tag))
        lab = np.array(detector.detector_to_lab(f(dety), f(detz), f(L), f(py), f(pz), f(y0), f(z0), Rf), dtype=float)
        Pf = np.array([f(q) for q in P])
        if not (np.abs(lab - Pf).max() <= 1e-9 * max(1.0, f(L))):
            out.append("detector_to_lab gives %s, the pixel is at %s in the laboratory (%s)" % (lab.tolist(), Pf.tolist(), tag))
        # the pixel returned by det_coor2, mapped back, lies on the ray from the grain position
        lab2 = np.array(detector.detector_to_lab(c2[0], c2[1], f(L), f(py), f(pz), f(y0), f(z0), Rf), dtype=float)
        w = lab2 - np.array([f(q) for q in pos])
        vf = np.array([f(q) for q in v])
        if not (np.abs(np.cross(w, vf)).max() <= 1e-9 * max(1.0, f(L))) or w.dot(vf) <= 0:
            out.append("the pixel of det_coor2 mapped back with detector_to_lab is not on the ray from the grain along the scattered direction (%s)" % tag)
        dv = np.array(detector.det_v(Gt, f(v[0]), lam, f(L), f(py), f(pz), f(y0), f(z0), Rf, 0, 0, 0), dtype=float)
        if not (np.abs(dv - vf).max() <= 1e-12):
            out.append("det_v gives %s, the scattered direction is %s (%s)" % (dv.tolist(), vf.tolist(), tag))
        for modname in ("tools", "laue"):
            mod = importlib.import_module("xfab." + modname)
            T = np.asarray(mod.detect_tilt(math.atan2(cs["tx"][1], cs["tx"][0]), math.atan2(cs["ty"][1], cs["ty"][0]),
                                           math.atan2(cs["tz"][1], cs["tz"][0])), dtype=float)
            if not (np.abs(T - Rf).max() <= 1e-12):
                out.append("xfab.%s.detect_tilt differs from Rx.Ry.Rz by %.3g (%s)" % (modname, float(np.abs(T - Rf).max()), tag))
    except Exception as ex:
        out.append("exception %r (%s)" % (ex, tag))
    maxpos = max(abs(f(q)) for q in pos)
    return 8, out, maxpos


def int_worker(a):
    """position-first, all exact: the grain position is given as INTEGERS (plain Python ints or numpy integers - the grain at the
    origin is written 0, 0, 0), the distance is not an integer; the pixel follows with exact fractions (R and v are rational)."""
    x, pars = a
    import numpy as np
    from xfab import detector
    cs = x["cs"]
    out = []
    R = [[Fr(e, x["rden"]) for e in row] for row in x["R"]]
    v = [Fr(e, x["vden"]) for e in x["v"]]
    L, py, pz, y0, z0, pos, how = pars
    n = [R[0][0], R[1][0], R[2][0]]
    nv = sum(n[i] * v[i] for i in range(3))
    t = (n[0] * (L - pos[0]) - n[1] * pos[1] - n[2] * pos[2]) / nv
    hit = [pos[i] + t * v[i] for i in range(3)]
    d = [hit[0] - L, hit[1], hit[2]]
    dety = sum(R[i][1] * d[i] for i in range(3)) / py + y0
    detz = sum(R[i][2] * d[i] for i in range(3)) / pz + z0
    f = float
    want = np.array([f(dety), f(detz)])
    scale = max(1.0, float(np.abs(want).max()))
    Rf = np.array([[f(e) for e in row] for row in R])
    tth, eta = math.atan2(cs["tth"][1], cs["tth"][0]), math.atan2(cs["eta"][1], cs["eta"][0])
    if how == "int":
        P3 = [int(q) for q in pos]
    elif how == "np":
        P3 = list(np.array([int(q) for q in pos]))          # numpy integer scalars
    else:
        P3 = [float(q) for q in pos]
    tag = "L=%s py=%s pz=%s centre=(%s,%s) tilt=(%.4f,%.4f,%.4f) 2theta=%.4f deg eta=%.4f grain=%s given as %s" % (
        L, py, pz, y0, z0, math.atan2(cs["tx"][1], cs["tx"][0]), math.atan2(cs["ty"][1], cs["ty"][0]),
        math.atan2(cs["tz"][1], cs["tz"][0]), math.degrees(tth), eta, [int(q) for q in pos],
        {"int": "Python ints", "np": "numpy integers", "float": "floats"}[how])
    try:
        c2 = np.array(detector.det_coor2(tth, eta, f(L), f(py), f(pz), f(y0), f(z0), Rf, P3[0], P3[1], P3[2]), dtype=float)
        if not np.all(np.isfinite(c2)) or not (np.abs(c2 - want).max() <= 1e-9 * scale):
            out.append("det_coor2 gives pixel %s, the ray from the grain meets the detector at %s (%s)" % (c2.tolist(), want.tolist(), tag))
        lam = 0.4
        Gt = np.array([0.0, 2 * math.pi * f(v[1]) / lam, 2 * math.pi * f(v[2]) / lam])
        c1 = np.array(detector.det_coor(Gt, f(v[0]), lam, f(L), f(py), f(pz), f(y0), f(z0), Rf, P3[0], P3[1], P3[2]), dtype=float)
        if not np.all(np.isfinite(c1)) or not (np.abs(c1 - want).max() <= 1e-9 * scale):
            out.append("det_coor gives pixel %s, expected %s (%s)" % (c1.tolist(), want.tolist(), tag))
        # integer pixel coordinates into detector_to_lab
        iy, iz = int(round(f(dety))), int(round(f(detz)))
        loc = [Fr(0), py * (iy - y0), pz * (iz - z0)]
        Pex = [f((L if i == 0 else 0) + sum(R[i][k] * loc[k] for k in range(3))) for i in range(3)]
        arg = (iy, iz) if how != "np" else (np.int64(iy), np.int64(iz))
        lab = np.array(detector.detector_to_lab(arg[0], arg[1], f(L), f(py), f(pz), f(y0), f(z0), Rf), dtype=float).reshape(-1)
        if lab.shape != (3,) or not (np.abs(lab - np.array(Pex)).max() <= 1e-9 * max(1.0, f(L))):
            out.append("detector_to_lab gives %s for the integer pixel (%d, %d), which is at %s in the laboratory (%s)" % (lab.tolist(), iy, iz, Pex, tag))
    except Exception as ex:
        out.append("exception %r (%s)" % (ex, tag))
    return 3, out


def pipeline_worker(a):
    """forward-simulation chain on one constructed reflection: g_w --find_omega_general--> (omega, eta) --> G_t = Omega.g_w
    --det_coor--> pixel  ==  det_coor2(2theta, eta) --detector_to_lab--> point on the ray from the grain along v(2theta, eta)"""
    x, det = a
    import importlib
    import numpy as np
    import c09
    from xfab import detector
    cs = x["cs"]
    out = []
    st, ct = cs["th"][1] / cs["th"][2], cs["th"][0] / cs["th"][2]
    se, ce = cs["eta"][1] / cs["eta"][2], cs["eta"][0] / cs["eta"][2]
    glab = np.array([-st * st, -2 * st * ct * se / 2, 2 * st * ct * ce / 2])
    gw = (np.array(x["N"], dtype=float) / x["den"]).T.dot(glab)
    twoth = 2 * math.atan2(cs["th"][1], cs["th"][0])
    chi, wedge = c09.a2(cs["t1"]), c09.a2(cs["t2"])
    om0, eta0 = c09.a2(cs["om"]), c09.a2(cs["eta"])
    L, py, pz, y0, z0, pos, Rt, lam = det
    v = np.array([math.cos(twoth), -math.sin(twoth) * se, math.sin(twoth) * ce])
    for modname in ("tools", "laue"):
        mod = importlib.import_module("xfab." + modname)
        tag = "xfab.%s 2theta=%.3f deg eta=%.4f omega=%.4f chi=%.3f wedge=%.3f" % (modname, math.degrees(twoth), eta0, om0, chi, wedge)
        try:
            oms, etas = mod.find_omega_general(gw, twoth, chi, wedge)
            k = [i for i in range(len(oms)) if abs(math.cos(oms[i]) - math.cos(om0)) < 1e-7 and abs(math.sin(oms[i]) - math.sin(om0)) < 1e-7]
            if not k:
                out.append("pipeline: the constructed omega is not among the solver's solutions (%s)" % tag)
                continue
            om, eta = float(oms[k[0]]), float(etas[k[0]])
            gt = np.asarray(mod.form_omega_mat_general(om, chi, wedge)).dot(gw)
            Gt = 4 * math.pi / lam * gt                     # |G| = 4 pi sin(theta)/lambda in the 2pi convention det_coor expects
            p1 = np.array(detector.det_coor(Gt, math.cos(twoth), lam, L, py, pz, y0, z0, Rt, pos[0], pos[1], pos[2]), dtype=float)
            p2 = np.array(detector.det_coor2(twoth, eta, L, py, pz, y0, z0, Rt, pos[0], pos[1], pos[2]), dtype=float)
            scale = max(1.0, np.abs(p2).max())
            if not (np.abs(p1 - p2).max() <= 1e-7 * scale):
                out.append("pipeline: det_coor(Omega.g) = %s and det_coor2(2theta, eta) = %s differ for the same reflection (%s)" % (p1.tolist(), p2.tolist(), tag))
            lab = np.array(detector.detector_to_lab(p2[0], p2[1], L, py, pz, y0, z0, Rt), dtype=float)
            w = lab - np.array(pos)
            if not (np.abs(np.cross(w, v)).max() <= 1e-7 * max(1.0, L)) or w.dot(v) <= 0:
                out.append("pipeline: the pixel mapped back to the laboratory is not on the ray from the grain along (2theta, eta) (%s)" % tag)
        except Exception as ex:
            out.append("pipeline: exception %r (%s)" % (ex, tag))
    return 5, out


def run(tier, seed):
    warnings.simplefilter("ignore")
    v = common.Verdict("C10", tier, seed)
    wd = common.workdir("C10")
    rng = random.Random(seed + 10)
    A = angles()
    cases = []
    ntilt = 12 if tier == "quick" else 120
    tilts = [((1, 0, 1), (1, 0, 1), (1, 0, 1))] + [tuple(rng.choice(TILT) for _ in range(3)) for _ in range(ntilt)]
    # tilts of a few milliradians about one axis (what a detector calibration actually yields): cos(tilt) differs from 1 by 2e-6..8e-6,
    # below the default tolerances of numpy.isclose - an "untilted" shortcut would be taken
    Z = (1, 0, 1)
    for n_ in (500, 1000, 250):
        tiny = (n_ * n_ - 1, 2 * n_, n_ * n_ + 1)
        for sgn in (1, -1):
            t_ = (tiny[0], sgn * tiny[1], tiny[2])
            tilts += [(Z, t_, Z), (Z, Z, t_), (t_, Z, Z)]
    small = tilts[-18:]
    for tth in TTH:
        for eta in rng.sample(A, 3):
            for (tx, ty, tz) in rng.sample(small, 4 if tier == "quick" else 18):
                cases.append({"tx": list(tx), "ty": list(ty), "tz": list(tz), "tth": list(tth), "eta": list(eta)})
    tilts = tilts[:-18]
    big = (391, 120, 409)            # 0.2978 rad
    for sy in (1, -1):
        for sz in (1, -1, 0):
            for sx in (0, 1):
                t3 = ((big[0], sx * big[1], big[2]) if sx else Z, (big[0], sy * big[1], big[2]), (big[0], sz * big[1], big[2]) if sz else Z)
                # the azimuths at which the ray meets the detector at the most grazing angle the quantifier allows (cosine of incidence
                # down to 0.10), and a share of the others
                def cosinc(eta_):
                    ax, ay, az = [math.atan2(q_[1], q_[0]) for q_ in t3]
                    cx, sx_, cy, sy_, cz, sz_ = math.cos(ax), math.sin(ax), math.cos(ay), math.sin(ay), math.cos(az), math.sin(az)
                    n0 = (cy * cz, sz_, -sy_ * cz)                               # Ry.Rz e_x
                    n_ = (n0[0], cx * n0[1] - sx_ * n0[2], sx_ * n0[1] + cx * n0[2])   # Rx on top
                    c2, s2 = 33 / 65.0, 56 / 65.0
                    se_, ce_ = eta_[1] / eta_[2], eta_[0] / eta_[2]
                    return n_[0] * c2 - n_[1] * s2 * se_ + n_[2] * s2 * ce_
                ranked = sorted(A, key=cosinc)
                for eta in ranked[:3] + [e_ for e_ in ranked[3:] if rng.random() < (0.15 if tier == "quick" else 1.0)]:
                    cases.append({"tx": list(t3[0]), "ty": list(t3[1]), "tz": list(t3[2]), "tth": [33, 56, 65], "eta": list(eta)})
    for tth in TTH:
        for eta in rng.sample(A, 14 if tier == "quick" else 30) + [(1, 0, 1)]:
            for (tx, ty, tz) in rng.sample(tilts, 10 if tier == "quick" else 60):
                cases.append({"tx": list(tx), "ty": list(ty), "tz": list(tz), "tth": list(tth), "eta": list(eta)})
    common.write_data_module(wd, "DetCases", {"Cases": common.TlaSet(cases)})
    r = common.run_tlc("Detector", "MC_Detector.cfg", wd, timeout=3000, heap="12g")
    if r.violated:
        raise common.MachineryError("Detector.tla: model-level identity violated: %s" % r.violated)
    todo = []
    for x in r.records:
        for _ in range(2 if tier == "quick" else 3):
            L = Fr(rng.choice([10, 137, 1000, rng.randint(10, 1000)]))
            py, pz = Fr(rng.choice([1, 5, 50, rng.randint(1, 50)]), 100), Fr(rng.choice([1, 5, 50, rng.randint(1, 50)]), 100)
            y0, z0 = Fr(rng.randint(-20000, 40000), 16), Fr(rng.randint(-20000, 40000), 16)
            pos0 = [Fr(rng.randint(-200, 200), 100) for _ in range(3)]
            todo.append((x, (L, py, pz, y0, z0, pos0)))
    res = common.pmap(worker, todo)
    ncalls = 0
    worst = 0.0
    for (x, pars), (n, out, mp) in zip(todo, res):
        ncalls += n
        worst = max(worst, mp)
        cs = x["cs"]
        v.case((repr(cs), repr(pars)), sample={"case": cs, "L": str(pars[0]), "pixel_size": [str(pars[1]), str(pars[2])],
                                               "centre": [str(pars[3]), str(pars[4])]} if len(v.samples) < 3 and cs["tx"][1] and cs["ty"][1] and cs["tz"][1] else None)
        for o in out[:2]:
            v.violation(o, {"case": cs, "L": str(pars[0]), "py": str(pars[1]), "pz": str(pars[2]), "y0": str(pars[3]), "z0": str(pars[4]),
                            "pos0": [str(q) for q in pars[5]]})
    # grain positions given as integers (0, 0, 0 above all), non-integer distance
    itodo = []
    for x in rng.sample(r.records, min(len(r.records), 400 if tier == "quick" else 6000)):
        L = Fr(rng.choice([325, 2741, 20001, rng.randint(21, 1999) * 2 + 1]), rng.choice([2, 20]))
        py, pz = Fr(rng.choice([1, 5, 50, rng.randint(1, 50)]), 100), Fr(rng.choice([1, 5, 50, rng.randint(1, 50)]), 100)
        y0, z0 = Fr(rng.randint(-20000, 40000), 16), Fr(rng.randint(-20000, 40000), 16)
        pos = rng.choice([[0, 0, 0], [0, 0, 0], [rng.randint(-2, 2) for _ in range(3)]])
        itodo.append((x, (L, py, pz, y0, z0, [Fr(q) for q in pos], rng.choice(["int", "int", "np", "float"]))))
    for (x, pars), (n, out) in zip(itodo, common.pmap(int_worker, itodo)):
        ncalls += n
        v.case(("int", repr(x["cs"]), repr(pars)))
        for o in out[:2]:
            v.violation(o, {"case": x["cs"], "L": str(pars[0]), "py": str(pars[1]), "pz": str(pars[2]), "y0": str(pars[3]), "z0": str(pars[4]),
                            "pos": [int(q) for q in pars[5]], "given_as": pars[6]})
    # the forward-simulation chain: omega solver -> g-vector at that omega -> both pixel functions -> back to the laboratory
    import c09
    pc, _un = c09.make_cases(rng, "quick")
    pc = [c for c in pc if c["solver"] == "general" and c["th"][1] * 1000 < c["th"][0] * 577]      # 2theta < 60 degrees (C10's range)
    pc = rng.sample(pc, 120 if tier == "quick" else 2500)
    common.write_data_module(wd, "OmegaCases", {"Cases": common.TlaSet(pc), "Unreach": common.TlaSet([]), "PSolvers": common.TlaSet([]),
                                                "PTh": common.TlaSet([]), "PEta": common.TlaSet([]), "POm": common.TlaSet([]), "PTilt": common.TlaSet([])})
    rp = common.run_tlc("Omega", "MC_Omega.cfg", wd, timeout=1200)
    import numpy as np
    ptodo = []
    for x in rp.records:
        if x["cs"]["kind"] != "reach" or x["tangent"] or x["cs"]["th"][2] > 200:
            continue
        rec = rng.choice(r.records)
        Rt = np.array(rec["R"], dtype=float) / rec["rden"]
        ptodo.append((x, (float(rng.choice([10, 137, 1000])), rng.choice([0.01, 0.05, 0.5]), rng.choice([0.01, 0.05, 0.5]),
                          rng.uniform(-500, 3000), rng.uniform(-500, 3000), [rng.uniform(-2, 2) for _ in range(3)], Rt, rng.uniform(0.15, 0.7))))
    for (x, det), (n, out) in zip(ptodo, common.pmap(pipeline_worker, ptodo)):
        ncalls += n
        v.case(("pipeline", repr(x["cs"])))
        for o in out[:2]:
            v.violation(o, {"case": x["cs"]})
    if v.violations:
        seen = {}
        for q in v.violations:
            seen.setdefault(q["what"].split("(")[0][:40], q)
        v.notes.append("%d violating observations collapsed to %d" % (len(v.violations), len(seen)))
        v.violations = list(seen.values())
    cov = {"states": r.distinct + rp.distinct, "transitions": r.generated + rp.generated,
           "traces_validated_against_impl": len(todo) + len(ptodo), "pipeline_chains": len(ptodo), "function_calls": ncalls,
           "max_grain_offset_mm": worst, "exhaustive": False,
           "rule": "case = (three-axis Pythagorean tilt <= 0.3 rad, 2theta in (0.57, 53) deg, eta) x seeded distance 10..1000, pixel sizes "
                   "0.01..0.5, beam centre, grain offset <= 2 mm (pixel rounded to 1/8)"}
    return v.finish("model_checking", cov, ASSUME)


def replay(path, seed):
    return run("quick", seed)
