"""C11 - detector orientation flips are exact bijections, the same for pixels and images.

TLC (spec/Flips.tla): all 8 valid orientations x shapes 1..8 x 1..8 x {trans_orientation, image_flipping},
numpy primitives as index maps, the code's compositions step by step; invariants: the image transform
realises the coordinate requirement, inverse undoes forward, coordinate functions are mutual inverses,
validation accepts exactly the signed permutation matrices.  Every terminal state is replayed into the
real functions.  FlipsBig.tla: large non-square shapes (coordinates only).  EtaRad.tla: exact points on
circles for the (dety,detz) <-> (eta,radius) pair.
"""
import math
import random
import warnings

import common
import lattice_lib as L

ASSUME = [
    "sizes are passed as detz_size = extent along x (W), dety_size = extent along y (H), as the property states",
    "numpy transpose/fliplr/flipud have the index semantics written in Flips.tla (checked against numpy by the replay)",
    "eta is compared through (cos, sin) of the code's output against the rational (c,s)/d; no expected angle is computed",
]


def RT(text):
    """the same text as a string object built at run time (read from a file, joined, sliced): equal to the literal, not identical"""
    return "".join(list(text))


def run(tier, seed):
    warnings.simplefilter("ignore")
    v = common.Verdict("C11", tier, seed)
    wd = common.workdir("C11")
    rng = random.Random(seed)
    import numpy as np
    from xfab import detector
    r = common.run_tlc("Flips", "MC_Flips.cfg", wd, timeout=1200)
    if r.violated:
        v.notes.append("MODEL: Flips.tla invariant(s) violated in the model of the coded composition: %s" % r.violated)
    states, trans = r.distinct, r.generated
    fw = {}
    invalid = None
    npix = 0
    for x in r.records:
        key = (x["f"], tuple(x["o"]), x["W"], x["H"], x["phase"])
        fw[key] = x
        if x.get("invalid"):
            invalid = [tuple(m) for m in x["invalid"]]
    if invalid is None or len(invalid) != 73:
        raise common.MachineryError("model did not emit the 73 invalid orientation matrices")
    funcs = {"trans": detector.trans_orientation, "flip": detector.image_flipping}
    for key, x in sorted(fw.items()):
        f, o, W, H, phase = key
        if phase != "forward":
            continue
        img = np.array([[i * 100 + j for j in range(H)] for i in range(W)])
        # pixel types a detector delivers: counts beyond 2^24 and the 2^32-1 mask value (no float32 holds them), 16-bit frames, float64
        # corrections with all 53 bits, boolean masks; the transformed image must carry the same VALUES (the type is not part of the property)
        kind_ = (W * 8 + H + len(f)) % 8
        if kind_ == 1:
            img = img.astype(np.int64) + (1 << 40) + 1
        elif kind_ == 2:
            img = ((img.astype(np.int64) * 65521 + 4294901760) % 4294967296).astype(np.uint32)
        elif kind_ == 3:
            img = img.astype(np.float64) / 3.0 + 1e9
        elif kind_ == 4:
            img = img.astype(np.uint16)
        elif kind_ == 5:
            img = (img % 3 == 0)
        elif kind_ == 6:
            img = (img.astype(np.int64) * 257 + 1).astype(">u2")        # big-endian 16-bit frames, as many detector formats store them
        elif kind_ == 7:
            img = (img.astype(np.float64) / 7.0).astype(">f8")
        desc = {"function": "trans_orientation" if f == "trans" else "image_flipping", "o": list(o), "W": W, "H": H, "dtype": str(img.dtype)}
        v.case(key[:4], nontrivial=(W * H > 1), sample=desc if (W, H, f) == (3, 5, "trans") and len(v.samples) < 4 else None)
        try:
            # the image functions are called on the caller's array itself (no copy), twice, with the guards of lattice_lib.twice
            keep = img.copy()
            out, m1 = L.twice(funcs[f], img, o[0], o[1], o[2], o[3], RT("forward"))
            back, m2 = L.twice(funcs[f], np.array(out), o[0], o[1], o[2], o[3], RT("inverse"))
            for m_ in (m1, m2):
                if m_:
                    v.violation(m_ + " (o=%s, %dx%d)" % (list(o), W, H), desc)
            if not np.array_equal(img, keep):
                v.violation("%s changes the raw image it is given (o=%s, %dx%d)" % (desc["function"], list(o), W, H), desc)
                img = keep
        except Exception as ex:
            v.violation("%s raised %r for valid orientation %s" % (desc["function"], ex, list(o)), desc)
            continue
        out = np.asarray(out)
        if not (np.asarray(back).shape == img.shape and np.array_equal(back, img)):
            v.violation("%s inverse mode does not undo forward mode for o=%s shape %dx%d" %
                        (desc["function"], list(o), W, H), desc)
        if f == "flip":
            # evidence only: the model of the coded composition predicts the forward result
            if kind_ == 0 and out.tolist() != x["out"]:
                v.notes.append("model drift: image_flipping forward differs from Flips.tla for %s" % (desc,))
            continue
        # requirement A: pixel (x,y) stored at XyToDetyz(x,y)
        ok = True
        for xx in range(W):
            for yy in range(H):
                q = x["map"][xx][yy]
                npix += 1
                if not (0 <= q[0] < out.shape[0] and 0 <= q[1] < out.shape[1]) or out[q[0], q[1]] != img[xx, yy]:
                    ok = False
                try:
                    if (xx + yy) % 3 == 0:
                        c, m1 = L.twice(detector.xy_to_detyz, np.array([xx, yy]), o[0], o[1], o[2], o[3], H, W)
                        b, m2 = L.twice(detector.detyz_to_xy, np.array([q[0], q[1]]), o[0], o[1], o[2], o[3], H, W)
                        for m_ in (m1, m2):
                            if m_:
                                v.violation(m_ + " (o=%s, %dx%d)" % (list(o), W, H), desc)
                    else:
                        c = detector.xy_to_detyz([xx, yy], o[0], o[1], o[2], o[3], H, W)
                        b = detector.detyz_to_xy([q[0], q[1]], o[0], o[1], o[2], o[3], H, W)
                except Exception as ex:
                    v.violation("coordinate function raised %r for valid orientation %s" % (ex, list(o)), desc)
                    continue
                if [float(c[0]), float(c[1])] != [float(q[0]), float(q[1])]:
                    v.violation("xy_to_detyz(%s, o=%s, dety_size=%d, detz_size=%d) = %s, trans_orientation stores the pixel at %s"
                                % ([xx, yy], list(o), H, W, [float(c[0]), float(c[1])], q), desc)
                if [float(b[0]), float(b[1])] != [float(xx), float(yy)]:
                    v.violation("detyz_to_xy(%s, o=%s, dety_size=%d, detz_size=%d) = %s, the inverse of xy_to_detyz is %s"
                                % (q, list(o), H, W, [float(b[0]), float(b[1])], [xx, yy]), desc)
        if not ok:
            v.violation("trans_orientation(forward, o=%s, shape %dx%d) does not store pixel (x,y) at the (dety,detz) "
                        "index the orientation matrix prescribes" % (list(o), W, H), desc)
        # distort() = xy_to_detyz o spatial.distort o detyz_to_xy : with the identity distortion it must be the identity
        class _Ident(object):
            def distort(self, a, b):
                return (a, b)
        for (xy, yz) in x["qmap"]:
            fy = [yz[0] / 4.0, yz[1] / 4.0]
            try:
                d = detector.distort(fy, o[0], o[1], o[2], o[3], H, W, _Ident())
            except Exception as ex:
                v.violation("distort raised %r for valid orientation %s" % (ex, list(o)), desc)
                break
            if [float(d[0]), float(d[1])] != fy:
                v.violation("distort with the identity distortion moves (dety,detz) = %s to %s (o=%s, %dx%d)" %
                            (fy, [float(d[0]), float(d[1])], list(o), W, H), desc)
                break
        for (xy, yz) in x["qmap"]:
            fx = [xy[0] / 4.0, xy[1] / 4.0]
            fy = [yz[0] / 4.0, yz[1] / 4.0]
            c = detector.xy_to_detyz(fx, o[0], o[1], o[2], o[3], H, W)
            b = detector.detyz_to_xy(fy, o[0], o[1], o[2], o[3], H, W)
            if [float(c[0]), float(c[1])] != fy or [float(b[0]), float(b[1])] != fx:
                v.violation("real-valued coordinates: xy_to_detyz(%s)=%s (want %s), detyz_to_xy(%s)=%s (want %s), o=%s, %dx%d"
                            % (fx, list(map(float, c)), fy, fy, list(map(float, b)), fx, list(o), W, H), desc)
    # rejection of the 73 other matrices by all four functions, acceptance of the 8
    nrej = 0
    img = np.arange(6).reshape(2, 3)
    for m in invalid:
        for small in (np.array([[7]]), np.arange(4).reshape(1, 4), np.arange(3).reshape(3, 1)):
            for nm, fn in (("trans_orientation", detector.trans_orientation), ("image_flipping", detector.image_flipping)):
                for mode_ in ("forward", "inverse"):
                    nrej += 1
                    try:
                        fn(small, m[0], m[1], m[2], m[3], RT(mode_))
                    except ValueError:
                        continue
                    except Exception as ex:
                        v.violation("%s raised %r instead of ValueError for the invalid orientation %s on a %dx%d image" % (nm, ex, list(m), small.shape[0], small.shape[1]),
                                    {"function": nm, "o": list(m)})
                        continue
                    v.violation("%s accepted the invalid orientation matrix %s for a %dx%d image (%s)" % (nm, list(m), small.shape[0], small.shape[1], mode_),
                                {"function": nm, "o": list(m)})
        for nm, call in (("trans_orientation", lambda: detector.trans_orientation(img, *m)),
                         ("image_flipping", lambda: detector.image_flipping(img, *m)),
                         ("xy_to_detyz", lambda: detector.xy_to_detyz([0, 1], m[0], m[1], m[2], m[3], 3, 2)),
                         ("detyz_to_xy", lambda: detector.detyz_to_xy([0, 1], m[0], m[1], m[2], m[3], 3, 2))):
            nrej += 1
            v.case(("reject", m, nm))
            try:
                call()
            except ValueError:
                try:
                    call()               # and a second time: what was refused once must be refused again
                except ValueError:
                    continue
                except Exception as ex:
                    v.violation("%s raised %r instead of ValueError when the invalid orientation %s was offered a second time" % (nm, ex, list(m)),
                                {"function": nm, "o": list(m)})
                    continue
                v.violation("%s refused the invalid orientation matrix %s once and accepted it the second time" % (nm, list(m)), {"function": nm, "o": list(m)})
                continue
            except Exception as ex:
                v.violation("%s raised %r instead of ValueError for invalid orientation %s" % (nm, ex, list(m)),
                            {"function": nm, "o": list(m)})
                continue
            v.violation("%s accepted the invalid orientation matrix %s" % (nm, list(m)), {"function": nm, "o": list(m)})
    # large non-square shapes
    shapes = []
    for k in range(6 if tier == "quick" else 40):
        W = rng.randint(9, 300 if tier == "quick" else 2048)
        H = rng.randint(9, 300 if tier == "quick" else 2048)
        if W == H:
            H += 1
        pts = {(0, 0), (W - 1, 0), (0, H - 1), (W - 1, H - 1)}
        while len(pts) < 12:
            pts.add((rng.randrange(W), rng.randrange(H)))
        shapes.append([W, H, common.TlaSet([list(p) for p in sorted(pts)])])
    # more rows than a 16-bit index holds, in either direction
    for (W, H) in ((70001, 3), (2, 65537)):
        pts = {(0, 0), (W - 1, 0), (0, H - 1), (W - 1, H - 1), (W // 2, H // 2), (255, 1) if W > 255 else (1, 255), (65535, 2) if W > 65535 else (1, 65535),
               (65536, 0) if W > 65536 else (0, 65536)}
        shapes.append([W, H, common.TlaSet([list(p_) for p_ in sorted(pts)])])
    common.write_data_module(wd, "FlipsBigCases", {"Shapes": common.TlaSet(shapes)})
    rb = common.run_tlc("FlipsBig", "MC_FlipsBig.cfg", wd, timeout=600)
    if rb.violated:
        v.notes.append("MODEL: FlipsBig invariant violated: %s" % rb.violated)
    states += rb.distinct
    trans += rb.generated
    cache = {}
    for x in rb.records:
        o, W, H = x["o"], x["W"], x["H"]
        if (W, H) not in cache:
            cache.clear()
            cache[(W, H)] = np.arange(W * H, dtype=np.int64).reshape(W, H)
        img = cache[(W, H)]
        desc = {"function": "trans_orientation", "o": o, "W": W, "H": H}
        v.case(("big", tuple(o), W, H))
        out = np.asarray(detector.trans_orientation(img, o[0], o[1], o[2], o[3], RT("forward")))
        back = np.asarray(detector.trans_orientation(out, o[0], o[1], o[2], o[3], RT("inverse")))
        if back.shape != img.shape or not np.array_equal(back, img):
            v.violation("trans_orientation inverse does not undo forward for o=%s shape %dx%d" % (o, W, H), desc)
        out2 = np.asarray(detector.image_flipping(img, o[0], o[1], o[2], o[3], RT("forward")))
        back2 = np.asarray(detector.image_flipping(out2, o[0], o[1], o[2], o[3], RT("inverse")))
        if back2.shape != img.shape or not np.array_equal(back2, img):
            v.violation("image_flipping inverse does not undo forward for o=%s shape %dx%d" % (o, W, H), desc)
        for (p, q) in x["map"]:
            good = 0 <= q[0] < out.shape[0] and 0 <= q[1] < out.shape[1] and out[q[0], q[1]] == img[p[0], p[1]]
            c = detector.xy_to_detyz(p, o[0], o[1], o[2], o[3], H, W)
            b = detector.detyz_to_xy(q, o[0], o[1], o[2], o[3], H, W)
            if not good:
                v.violation("trans_orientation(o=%s, %dx%d) does not store pixel %s at %s" % (o, W, H, p, q), desc)
            if [float(c[0]), float(c[1])] != [float(q[0]), float(q[1])]:
                v.violation("xy_to_detyz(%s, o=%s, dety_size=%d, detz_size=%d) = %s, expected %s" %
                            (p, o, H, W, list(map(float, c)), q), desc)
            if [float(b[0]), float(b[1])] != [float(p[0]), float(p[1])]:
                v.violation("detyz_to_xy(%s, o=%s, dety_size=%d, detz_size=%d) = %s, expected %s" %
                            (q, o, H, W, list(map(float, b)), p), desc)
    # eta / radius
    re_ = common.run_tlc("EtaRad", "MC_EtaRad.cfg", wd, timeout=600)
    if re_.violated:
        raise common.MachineryError("EtaRad model-level identity violated: %s" % re_.violated)
    states += re_.distinct
    trans += re_.generated
    for x in re_.records:
        if "pix" in x:
            # whole pixels, integer typed, in every container; centre in quarter pixels
            cy, cz = x["cen"][0] / 4.0, x["cen"][1] / 4.0
            px, pz = x["pix"]
            if not x["inrange"]:
                continue
            want_r = math.sqrt(x["r2"]) / 4.0
            for how, coor in (("list of ints", [px, pz]), ("integer array", np.array([px, pz])), ("float array", np.array([px, pz], dtype=float)),
                              ("int32 array", np.array([px, pz], dtype=np.int32))):
                desc = {"pixel": [px, pz], "given_as": how, "centre": [cy, cz]}
                v.case(("pix", px, pz, tuple(x["cen"]), how), sample=desc if len(v.samples) < 7 and how == "integer array" else None)
                try:
                    keep = np.array(coor).copy()
                    (eta, rad), m_ = L.twice(detector.detyz_to_eta_and_radpix, coor, cy, cz)
                    if m_:
                        v.violation(m_, desc)
                    if not np.array_equal(np.array(coor), keep):
                        v.violation("detyz_to_eta_and_radpix changes the position it is given", desc)
                except Exception as ex:
                    v.violation("detyz_to_eta_and_radpix raised %r for pixel %s given as %s" % (ex, [px, pz], how), desc)
                    continue
                # exact offsets (quarters): dety - cy = -r sin(eta), detz - cz = r cos(eta)
                oy, oz = x["offy"] / 4.0, x["offz"] / 4.0
                if not (abs(rad - want_r) <= 1e-9 * want_r) or not (abs(-rad * math.sin(math.radians(eta)) - oy) <= 1e-7 * want_r) or \
                        not (abs(rad * math.cos(math.radians(eta)) - oz) <= 1e-7 * want_r) or not (0 <= eta <= 360):
                    v.violation("detyz_to_eta_and_radpix(%s given as %s, centre %s) = (%r, %r); the pixel is at offset (%s, %s) from the centre, "
                                "radius %.9f" % ([px, pz], how, [cy, cz], eta, rad, oy, oz, want_r), desc)
                    continue
                rt = detector.eta_and_radpix_to_detyz(eta, rad, cy, cz)
                if not (abs(rt[0] - px) <= 1e-9 * max(1.0, abs(px)) + 1e-9 * want_r) or not (abs(rt[1] - pz) <= 1e-9 * max(1.0, abs(pz)) + 1e-9 * want_r):
                    v.violation("(dety,detz) -> (eta,radius) -> (dety,detz) round trip moves the pixel %s (given as %s) to %s" %
                                ([px, pz], how, list(map(float, rt))), desc)
            continue
        c, s, d, rr = x["c"], x["s"], x["d"], x["r"] / float(x["rd"])
        cy, cz = x["cen"][0] / 4.0, x["cen"][1] / 4.0
        dety, detz = x["dety"] / x["den"], x["detz"] / x["den"]
        desc = {"eta_cos_sin": [c, s, d], "radius": rr, "centre": [cy, cz], "dety": dety, "detz": detz}
        v.case(("eta", c, s, d, rr, tuple(x["cen"])), sample=desc if len(v.samples) < 6 and rr == 7 else None)
        if not (abs(rr * d - round(rr * d)) <= 1e-12) and not (abs(s) == d or abs(c) == d):
            pass
        eta, rad = detector.detyz_to_eta_and_radpix(np.array([dety, detz]), cy, cz)
        tol = 1e-9
        if not (0 <= eta <= 360):
            v.violation("detyz_to_eta_and_radpix returned eta=%r outside [0,360]" % eta, desc)
        if not (abs(rad - rr) <= tol * rr) or not (abs(math.cos(math.radians(eta)) - c / d) <= 1e-7) or \
                not (abs(math.sin(math.radians(eta)) - s / d) <= 1e-7):
            v.violation("detyz_to_eta_and_radpix(%s) = (%r, %r); exact point has cos,sin(eta) = %d/%d, %d/%d, radius %g"
                        % ([dety, detz], eta, rad, c, d, s, d, rr), desc)
        etad = math.degrees(math.atan2(s, c)) % 360.0
        back = detector.eta_and_radpix_to_detyz(etad, rr, cy, cz)
        scale = max(1.0, abs(dety), abs(detz))
        if not (abs(back[0] - dety) <= 1e-9 * scale) or not (abs(back[1] - detz) <= 1e-9 * scale):
            v.violation("eta_and_radpix_to_detyz(%r, %g) = %s, exact point %s" % (etad, rr, list(map(float, back)), [dety, detz]), desc)
        rt = detector.eta_and_radpix_to_detyz(eta, rad, cy, cz)
        if not (abs(rt[0] - dety) <= 1e-9 * scale) or not (abs(rt[1] - detz) <= 1e-9 * scale):
            v.violation("(dety,detz) -> (eta,radius) -> (dety,detz) round trip moves the point %s to %s" %
                        ([dety, detz], list(map(float, rt))), desc)
    if v.violations:
        seen = {}
        for q in v.violations:
            seen.setdefault((q["case"].get("function", "eta"), q["what"].split("(")[0][:30], tuple(q["case"].get("o", []))), q)
        v.notes.append("%d violating observations collapsed to %d" % (len(v.violations), len(seen)))
        v.violations = list(seen.values())
        v.max_replays = 40
    cov = {"states": states, "transitions": trans,
           "traces_validated_against_impl": len(fw) + len(rb.records) + len(re_.records) + nrej,
           "pixels_compared": npix, "exhaustive": True,
           "model_invariants_violated": list(r.violated),
           "rule": "all 8 orientations x shapes 1..8x1..8 x 2 image functions (forward then inverse), every pixel; "
                   "73 invalid matrices x 4 functions; large shapes at corners + seeded interior points; "
                   "%d exact circle points for eta/radius" % len(re_.records)}
    return v.finish("model_checking", cov, ASSUME)


def replay(path, seed):
    return run("quick", seed)
