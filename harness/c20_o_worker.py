"""Run under `python -O`: replays behaviours of Checks.tla with DebugOn = FALSE into the package.
usage: python -O c20_o_worker.py <behaviours.json> <out.json> <seed>"""
import json
import os
import sys

sys.path.insert(0, os.path.dirname(os.path.abspath(__file__)))
import common  # noqa: E402
import c20  # noqa: E402


def main():
    if __debug__:
        raise SystemExit("this worker must run under python -O")
    common.use_repo()
    beh = json.load(open(sys.argv[1]))
    w = c20.World(int(sys.argv[3]))
    v = common.Verdict("C20", "quick", int(sys.argv[3]))
    n = 0
    for h in beh:
        n += 1
        c20.replay_behaviour(w, h, v, "python -O")
        if len(v.violations) > 50:
            break
    json.dump({"n": n, "violations": [{"what": q["what"], "case": q["case"]} for q in v.violations]}, open(sys.argv[2], "w"), default=common._js)


if __name__ == "__main__":
    main()
