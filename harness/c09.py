"""C09 - returned (omega, eta) satisfy the diffraction condition; no solution is missed.

TLC (spec/Omega.tla) constructs, from Pythagorean theta, eta, omega and tilts, the exact goniometer matrix of each
solver and decides tangency exactly; g_w = Omega' g_lab then MUST diffract at the constructed (omega, eta).  The
never-diffracting family (g close to the rotation axis) is decided by an exact inequality.  Replay: all four solvers
in both modules; tth/tth2 against the exact Q* of Cell.tla.
"""
import math
import random
import warnings

import common
import c01
import genhkl_lib as gl
import lattice_lib as L

ASSUME = [
    "g_lab and g_w are float products of exact rationals emitted by TLC (angles Pythagorean); tolerance 1e-9 on the diffraction "
    "condition, 1e-7 on cos/sin when matching the constructed solution",
    "tangent constructions (decided exactly: x-component of n x g_lab = 0) are excluded from the count claim and checked at 1e-6 instead of "
    "1e-9 (coinciding roots lose half the digits); every non-tangent lattice point is farther than 1e-5 (relative) from tangency",
    "find_omega_wedge uses Ry(-wedge).Rz(omega) (GrainSpotter sign), as the property states",
]

TH = [(24, 7, 25), (4, 3, 5), (5, 12, 13), (12, 5, 13), (3, 4, 5), (15, 8, 17), (8, 15, 17), (7, 24, 25), (63, 16, 65),
      (99, 20, 101), (399, 40, 401), (9999, 200, 10001), (159999, 800, 160001)]
TILT = [(1, 0, 1), (24, 7, 25), (24, -7, 25), (63, 16, 65), (63, -16, 65), (12, 5, 13), (12, -5, 13), (15, 8, 17), (15, -8, 17)]


def angles():
    A = {(1, 0, 1), (0, 1, 1), (-1, 0, 1), (0, -1, 1)}
    for (a, b, d) in [(3, 4, 5), (5, 12, 13), (8, 15, 17), (7, 24, 25), (20, 21, 29)]:
        for (x, y) in ((a, b), (b, a)):
            for sx in (1, -1):
                for sy in (1, -1):
                    A.add((sx * x, sy * y, d))
    return sorted(A)


def mk(solver, th, eta, om, t1, t2):
    return {"kind": "reach", "solver": solver, "th": list(th), "eta": list(eta), "om": list(om), "t1": list(t1), "t2": list(t2),
            "al": [1, 0, 1], "be": [1, 0, 1], "sgn": 1}


def make_cases(rng, tier):
    A = angles()
    ths = TH if tier == "thorough" else [TH[0], TH[1], TH[2], TH[7], TH[9], TH[11], TH[12]]
    ne, no = (8, 6) if tier == "quick" else (18, 14)
    cases = []
    for th in ths:
        etas = rng.sample(A, ne)
        oms = rng.sample(A, no)
        for eta in etas:
            # omega exactly 0 and pi: cos(omega) = +-1, where an unclipped arccos yields NaN
            for om in ((1, 0, 1), (-1, 0, 1)):
                cases.append(mk("plain", th, eta, om, (1, 0, 1), (1, 0, 1)))
            for om in oms:
                cases.append(mk("plain", th, eta, om, (1, 0, 1), (1, 0, 1)))
                tilts = [(1, 0, 1)] + rng.sample(TILT[1:], 3 if tier == "quick" else 8)
                for t2 in tilts:
                    cases.append(mk("wedge", th, eta, om, (1, 0, 1), t2))
                    for t1 in tilts:
                        cases.append(mk("general", th, eta, om, t1, t2))
                        if t1[2] * t2[2] <= 65 * 25:
                            cases.append(mk("quart", th, eta, om, t1, t2))
    # omega exactly 0 or pi for EVERY (theta, eta) of the lattice: cos(omega) comes out as +-(1 + 2e-16) for a few per cent of them
    # (either side), which an arccos that is not clipped on that side turns into NaN
    for th in TH:
        for eta in A:
            for om in ((1, 0, 1), (-1, 0, 1)):
                cases.append(mk("plain", th, eta, om, (1, 0, 1), (1, 0, 1)))
                if tier == "thorough":
                    cases.append(mk("wedge", th, eta, om, (1, 0, 1), (1, 0, 1)))
    # scattering vectors within a fraction of a degree of the rotation axis at low Bragg angle: the discriminant of
    # a cos w + b sin w = c is of order sin^2(theta) eta^2 = 1e-9 .. 1e-7 in absolute terms while the two roots are well separated
    # (relative discriminant eta^2 / (theta^2 + eta^2) ~ 0.5): an absolute cut on the discriminant loses these reflections
    def plus(a, b):          # sum of two Pythagorean angles
        return (a[0] * b[0] - a[1] * b[1], a[1] * b[0] + a[0] * b[1], a[2] * b[2])
    near = [(159999, 800, 160001), (159999, -800, 160001), (-159999, 800, 160001), (-159999, -800, 160001),
            (9999, 200, 10001), (-9999, -200, 10001)]
    for th in (TH[12], TH[11], TH[10]):
        for e0 in near:
            for om in rng.sample(A, 2 if tier == "quick" else 8):
                cases.append(mk("plain", th, e0, om, (1, 0, 1), (1, 0, 1)))
                cases.append(mk("wedge", th, e0, om, (1, 0, 1), (1, 0, 1)))
                for t1 in [(1, 0, 1), (24, 7, 25), (12, -5, 13)]:
                    # rotation axis Rx(t1) z = (0, -sin t1, cos t1): g is close to it for eta = t1 + small
                    cases.append(mk("general", th, plus(t1, e0), om, t1, (1, 0, 1)))
                    cases.append(mk("quart", th, plus(t1, e0), om, t1, (1, 0, 1)))
    un = []
    small_t = [(1, 0, 1), (4, 3, 5), (12, 5, 13), (12, -5, 13), (4, -3, 5)]
    for th in [(4, 3, 5), (12, 5, 13), (5, 12, 13), (3, 4, 5)]:
        for t1 in small_t:
            for t2 in small_t:
                if t1[2] * t2[2] > 65:
                    continue              # keeps the exact inequality inside 32 bits
                for al in [(1, 0, 1), (24, 7, 25), (12, 5, 13), (4, 3, 5)]:
                    for sgn in (1, -1):
                        be = rng.choice(A)
                        for solver in ("plain", "general", "quart", "wedge"):
                            if solver == "plain" and (t1 != (1, 0, 1) or t2 != (1, 0, 1)):
                                continue
                            if solver == "wedge" and t1 != (1, 0, 1):
                                continue
                            c = mk(solver, th, (1, 0, 1), (1, 0, 1), t1, t2)
                            c.update({"kind": "unreach", "al": list(al), "be": list(be), "sgn": sgn})
                            un.append(c)
    return cases, un


def a2(t):
    return math.atan2(t[1], t[0])


def Ry(t):
    import numpy as np
    return np.array([[math.cos(t), 0, math.sin(t)], [0, 1.0, 0], [-math.sin(t), 0, math.cos(t)]])


def Rz(t):
    import numpy as np
    return np.array([[math.cos(t), -math.sin(t), 0], [math.sin(t), math.cos(t), 0], [0, 0, 1.0]])


NEIGHBOURS = [(4e-5, -3e-5, 0.0, 0.0), (-4e-5, 4e-5, 0.0, 0.0), (3e-6, 2e-6, 0.0, 0.0), (-2e-7, 3e-7, 0.0, 0.0),
              (0.0, 0.0, 3e-5, 0.0), (0.0, 0.0, -2e-7, 0.0), (0.0, 0.0, 0.0, 1e-5)]


def solve(mod, solver, gw, twoth, chi, wedge):
    import numpy as np
    if solver == "plain":
        om = mod.find_omega(gw, twoth)
        return list(np.atleast_1d(om)), None
    if solver == "general":
        om, eta = mod.find_omega_general(gw, twoth, chi, wedge)
    elif solver == "quart":
        om, eta = mod.find_omega_quart(gw, twoth, chi, wedge)
    else:
        om, eta = mod.find_omega_wedge(gw, twoth, wedge)
    return list(np.atleast_1d(om)), list(np.atleast_1d(eta))


def matrix(mod, solver, om, chi, wedge):
    if solver == "plain":
        return mod.form_omega_mat(om)
    if solver == "general":
        return mod.form_omega_mat_general(om, chi, wedge)
    if solver == "quart":
        return mod.quart_to_omega(math.degrees(om), chi, wedge)
    return Ry(-wedge).dot(Rz(om))


def worker(x):
    import importlib
    import numpy as np
    cs = x["cs"]
    out = []
    n = 0
    th = a2(cs["th"])
    st, ct = cs["th"][1] / cs["th"][2], cs["th"][0] / cs["th"][2]
    s2t, twoth = 2 * st * ct, 2 * th
    chi, wedge = a2(cs["t1"]), a2(cs["t2"])
    solver = cs["solver"]
    for modname in ("tools", "laue"):
        mod = importlib.import_module("xfab." + modname)
        tag = "xfab.%s %s 2theta=%.4f deg chi=%.4f wedge=%.4f" % (modname, {"plain": "find_omega", "general": "find_omega_general",
                                                                        "quart": "find_omega_quart", "wedge": "find_omega_wedge"}[solver],
                                                                math.degrees(twoth), chi, wedge)
        try:
            if cs["kind"] == "reach":
                if x.get("degenerate"):
                    continue          # g parallel to the rotation axis and on the Bragg cone: every omega diffracts (excluded)
                se, ce = cs["eta"][1] / cs["eta"][2], cs["eta"][0] / cs["eta"][2]
                glab = np.array([-st * st, -s2t * se / 2.0, s2t * ce / 2.0])
                Om = np.array(x["N"], dtype=float) / x["den"]
                gw = Om.T.dot(glab)
                om0, eta0 = a2(cs["om"]), a2(cs["eta"])
                scale = 1.0 if modname == "tools" else 3.7
                # near-neighbour requests first (a refinement step away in the tilts, the Bragg angle or g): their answers are
                # thrown away; a solver that keeps anything keyed by rounded arguments answers the judged call from the neighbour
                for (d1, d2, dt, dg) in NEIGHBOURS:
                    try:
                        solve(mod, solver, gw * scale * (1.0 + dg), twoth + dt, chi + d1, wedge + d2)
                    except Exception:
                        pass
                oms, etas = solve(mod, solver, gw * scale, twoth, chi, wedge)
                n += 1
                tag2 = tag + " eta=%.5f omega=%.5f" % (eta0, om0)
                # at an exactly tangent construction the two roots coincide and acos/sqrt lose half the digits
                tol = 1e-6 if x["tangent"] else 1e-9
                if solver == "plain":
                    # find_omega takes arccos(cos omega): at omega = 0 or pi the result carries sqrt(2 eps) = 2e-8 of rounding
                    tol = max(tol, 1e-7)
                for k, o in enumerate(oms):
                    if not (-math.pi - 1e-12 < o <= math.pi + 1e-12):
                        out.append("omega %r outside (-pi, pi] (%s)" % (o, tag2))
                    M = np.asarray(matrix(mod, solver, o, chi, wedge), dtype=float)
                    gt = M.dot(gw)
                    if not (abs(gt[0] + st * st) <= tol):
                        out.append("returned omega %.9f does not bring g to the diffraction condition: x = %.12g, -sin^2(theta) = %.12g (%s)" %
                                   (o, gt[0], -st * st, tag2))
                        break
                    if etas is not None:
                        e = etas[k]
                        if not (abs(gt[1] + s2t * math.sin(e) / 2) <= tol) or not (abs(gt[2] - s2t * math.cos(e) / 2) <= tol):
                            out.append("returned eta %.9f does not match the rotated g-vector (y,z) = (%.9g, %.9g) (%s)" % (e, gt[1], gt[2], tag2))
                            break
                if not x["tangent"]:
                    found = False
                    for k, o in enumerate(oms):
                        okw = abs(math.cos(o) - math.cos(om0)) < 1e-7 and abs(math.sin(o) - math.sin(om0)) < 1e-7
                        oke = etas is None or (abs(math.cos(etas[k]) - math.cos(eta0)) < 1e-7 and abs(math.sin(etas[k]) - math.sin(eta0)) < 1e-7)
                        found = found or (okw and oke)
                    if len(oms) != 2:
                        out.append("%d solution(s) returned for a reflection that reaches the diffraction condition away from tangency (%s)" % (len(oms), tag2))
                    elif not found:
                        out.append("the solution (omega, eta) = (%.6f, %.6f) the g-vector was constructed from is missed; returned omega %s eta %s (%s)" %
                                   (om0, eta0, [round(float(o), 6) for o in oms], None if etas is None else [round(float(e), 6) for e in etas], tag2))
            else:
                if not x["unreachable"]:
                    continue
                P = np.array(x["P"], dtype=float) / x["pden"]
                ca, sa = cs["al"][0] / cs["al"][2], cs["al"][1] / cs["al"][2]
                cb, sb = cs["be"][0] / cs["be"][2], cs["be"][1] / cs["be"][2]
                a = np.array([sa * cb, sa * sb, ca])
                if solver == "quart":
                    a = P.dot(a)
                gw = cs["sgn"] * st * a
                oms, etas = solve(mod, solver, gw, twoth, chi, wedge)
                n += 1
                if len(oms) != 0:
                    out.append("%d solution(s) returned for a g-vector that can never reach the diffraction condition "
                               "(angle to the rotation axis %.4f rad) (%s)" % (len(oms), math.atan2(sa, ca), tag))
        except Exception as ex:
            out.append("exception %r (%s)" % (ex, tag))
    return n, out


def tth_worker(a):
    rec, u, lam, pq = a
    import importlib
    import numpy as np
    out = []
    cell = L.cell_from_metric(rec["G"], u)
    U = L.cayley(pq[0], pq[1]).T
    for modname in ("tools", "laue"):
        mod = importlib.import_module("xfab." + modname)
        B = mod.form_b_mat(cell)
        for (h, q) in rec["q"]:
            want = lam * lam * q / (4.0 * u * rec["det"])
            if not (0 < want < 0.9):
                continue
            t1 = mod.tth(cell, h, lam)
            hf = np.array(h, dtype=float)
            hf = np.where(hf != 0, hf * (1 - 1.1e-16), hf)          # one ulp below the integer, where a cast to int truncates
            t1f = mod.tth(cell, hf, lam)
            if not (abs(t1f - t1) <= 1e-12):
                out.append("tth for hkl %s given as floats one ulp below the integers (%r) = %.12g, for the integers %.12g (xfab.%s metric %s)" %
                           (h, hf.tolist(), t1f, t1, modname, rec["G"]))
                break
            t2 = mod.tth2(U.dot(B).dot(np.array(h, dtype=float)), lam)
            s1, s2 = math.sin(t1 / 2) ** 2, math.sin(t2 / 2) ** 2
            if not (abs(s1 - want) <= 1e-9 * want) or not (abs(s2 - want) <= 1e-9 * want) or not (0 <= t1 <= math.pi):
                out.append("tth/tth2 for hkl %s: sin^2(tth/2) = %.12g / %.12g, lambda^2 Q*/(4 det G) = %.12g (xfab.%s metric %s)" %
                           (h, s1, s2, want, modname, rec["G"]))
                break
    return 1, out


def run(tier, seed):
    warnings.simplefilter("ignore")
    v = common.Verdict("C09", tier, seed)
    wd = common.workdir("C09")
    rng = random.Random(seed + 9)
    cases, un = make_cases(rng, "quick")
    prod = {"PSolvers": common.TlaSet([]), "PTh": common.TlaSet([]), "PEta": common.TlaSet([]), "POm": common.TlaSet([]), "PTilt": common.TlaSet([])}
    if tier == "thorough":
        A = angles()
        prod = {"PSolvers": common.TlaSet(["plain", "general", "quart", "wedge"]), "PTh": common.TlaSet([list(t) for t in TH]),
                "PEta": common.TlaSet([list(a) for a in rng.sample(A, 14)]), "POm": common.TlaSet([list(a) for a in rng.sample(A, 10)]),
                "PTilt": common.TlaSet([list(t) for t in TILT])}
    common.write_data_module(wd, "OmegaCases", dict({"Cases": common.TlaSet(cases), "Unreach": common.TlaSet(un)}, **prod))
    r = common.run_tlc("Omega", "MC_Omega.cfg", wd, timeout=3000, heap="12g")
    if r.violated:
        raise common.MachineryError("Omega.tla: model-level identity violated: %s" % r.violated)
    res = common.pmap(worker, r.records)
    ncalls = 0
    ntang = nun = 0
    for x, (n, out) in zip(r.records, res):
        ncalls += n
        cs = x["cs"]
        if cs["kind"] == "reach":
            ntang += 1 if x["tangent"] else 0
            if not x["tangent"] and abs(x["tangnum"]) / x["tangden"] < 1e-5:
                raise common.MachineryError("non-tangent lattice point too close to tangency")
        else:
            nun += 1 if x["unreachable"] else 0
        v.case(repr(cs), nontrivial=True, sample={k: cs[k] for k in ("kind", "solver", "th", "eta", "om", "t1", "t2")}
               if len(v.samples) < 4 and cs["solver"] == "general" and cs["t1"][1] and cs["t2"][1] else None)
        for o in out[:2]:
            v.violation(o, {"case": cs})
    # tth / tth2
    ms = []
    while len(ms) < (20 if tier == "quick" else 400):
        m = [rng.choice([4, 6, 9, 12]) for _ in range(3)] + [rng.randint(-3, 3) for _ in range(3)]
        if gl.spd(m) and gl.gram_ok(m):
            ms.append(m)
    hk = set()
    while len(hk) < 10:
        h = tuple(rng.randint(-4, 4) for _ in range(3))
        if h != (0, 0, 0):
            hk.add(h)
    common.write_data_module(wd, "CellCases", {"Metrics": common.TlaSet(ms), "Hkls": common.TlaSet([list(h) for h in sorted(hk)])})
    rc = common.run_tlc("Cell", "MC_Cell0.cfg", wd, timeout=600)
    todo = [(x, rng.uniform(1.0, 6.0), rng.uniform(0.15, 0.9), ([rng.randint(-3, 3) for _ in range(3)], rng.randint(1, 3))) for x in rc.records]
    for (x, u, lam, pq), (n, out) in zip(todo, common.pmap(tth_worker, todo)):
        ncalls += n
        v.case(("tth", tuple(x["G"])))
        for o in out[:1]:
            v.violation(o, {"metric": x["G"], "u": u, "wavelength": lam})
    if v.violations:
        seen = {}
        for q in v.violations:
            seen.setdefault(q["what"].split("(")[0][:40] + q["what"].split("(xfab.")[-1][:30], q)
        v.notes.append("%d violating observations collapsed to %d" % (len(v.violations), len(seen)))
        v.violations = list(seen.values())
    cov = {"states": r.distinct + rc.distinct, "transitions": r.generated + rc.generated,
           "traces_validated_against_impl": len(r.records) + len(rc.records), "tangent_constructions": ntang,
           "unreachable_cases": nun, "solver_calls": ncalls, "exhaustive": False,
           "rule": "case = (solver, Pythagorean theta, eta, omega, chi, wedge) constructed to diffract; tilts from 9 values in [-0.5,0.5] rad incl. "
                   "both non-zero; 2theta from 0.57 to 147 deg; plus the never-diffracting family and tth/tth2 on integer metrics"}
    return v.finish("model_checking", cov, ASSUME)


def replay(path, seed):
    return run("quick", seed)
