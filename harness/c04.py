"""C04 - each tabulated space group is a group consistent with its metadata and names.

TLC (spec/SpaceGroup.tla) checks the group laws on every exported table and runs the lookup
automaton for every request (237 tables, 460 number/setting pairs, every dictionary key in 6
spellings).  Every lookup behaviour TLC explored is replayed into the real sg.sg and the
resolved table compared attribute by attribute.
"""
import warnings

import common
import export

ASSUME = [
    "translations are multiples of 1/24 within 1e-4 (checked at export, a table that is not is reported)",
    "tables instantiated directly from xfab.sglib classes are the data sg.sg hands out (checked by the replay)",
    "metric preservation is decided on a basis of the linear space of conforming metric tensors (monoclinic: unique axis b)",
]


def _s(codes):
    return "".join(chr(c) for c in codes)


def run(tier, seed):
    warnings.simplefilter("ignore")
    v = common.Verdict("C04", tier, seed)
    wd = common.workdir("C04")
    tabs, dic = export.write_tables_module(wd)
    bykey = {(t["no"], t["setting"]): t for t in tabs}
    r = common.run_tlc("SpaceGroup", "MC_SpaceGroup.cfg" if tier == "quick" else "MC_SpaceGroup_live.cfg",
                       wd, coverage=(tier == "thorough"), timeout=1500)
    if r.violated:
        # only the liveness property can be violated here: the lookup machine must terminate
        v.violation("lookup machine does not terminate / TLC property violated: %s" % r.violated, {})
    expect = len(tabs) + 690 + 6 * len(dic) + 3 * len(dic)
    recs = {}
    for x in r.records:
        recs[repr(sorted(x["req"].items()))] = x
    if len(recs) != expect:
        raise common.MachineryError("expected %d terminal states, TLC emitted %d" % (expect, len(recs)))
    from xfab import sg
    import numpy as np
    replayed = 0
    for x in recs.values():
        req = x["req"]
        if req["kind"] == "table":
            key = "table %d %s" % (x["no"], x["setting"])
            v.case(key, sample={"table": [x["no"], x["setting"]], "failed_laws": x["failed"]})
            for law in x["failed"]:
                v.violation("Sg%d (%s setting) breaks group law '%s'" % (x["no"], x["setting"], law),
                            {"table": [x["no"], x["setting"]], "law": law,
                             "detail": bykey[(x["no"], x["setting"])]["bad"]})
            continue
        if req["kind"] == "number":
            desc = "sgno=%d cell_choice=%s" % (req["no"], req["setting"])
            # the number as a Python int, a float (what reading '225' from a CIF gives), a numpy integer or a numpy float
            kw = dict(sgno=[req["no"], float(req["no"]), np.int64(req["no"]), np.float64(req["no"])][(req["no"] + len(req["setting"])) % 4],
                      cell_choice=req["setting"])
        elif req["kind"] == "nameset":
            text = _s(x["spelled"])
            desc = "sgname=%r cell_choice=%s" % (text, req["setting"])
            kw = dict(sgname=text, cell_choice=req["setting"])
        else:
            text = _s(x["spelled"])
            desc = "sgname=%r" % text
            kw = dict(sgname=text)
        v.case(desc, sample={"lookup": desc, "model_resolves_to": [x["no"], x["setting"]]})
        if x["pc"] != "resolved":
            v.violation("model: lookup %s ends in %s" % (desc, x["pc"]), {"lookup": desc, "rec": x})
            continue
        for flag, what in () if req["kind"] == "nameset" else (("nameagrees", "table's own name does not match the key"),
                           ("keysresolve", "key resolves to another class than the dictionary names"),
                           ("suffixrule", "rhombohedral table not reached exactly by r...r keys"),
                           ("numbersresolve", "number resolves to a table with another number")):
            if not x[flag]:
                v.violation("lookup %s: %s" % (desc, what), {"lookup": desc, "rec": x})
        # replay into the implementation
        try:
            g = sg.sg(**kw)
        except Exception as ex:
            v.violation("real lookup %s raised %r, model resolves it to Sg%d/%s" %
                        (desc, ex, x["no"], x["setting"]), {"lookup": desc, "rec": x})
            continue
        replayed += 1
        t = bykey[(x["no"], x["setting"])]
        got = {
            "no": int(g.no), "name": str(g.name), "crystal_system": str(g.crystal_system),
            "Laue": str(g.Laue), "nsymop": int(g.nsymop), "nuniq": int(g.nuniq),
            "cell_choice": str(g.cell_choice), "syscond": [int(q) for q in g.syscond],
        }
        want = {"no": t["own_no"], "name": t["name_text"], "crystal_system": t["crystal_system"],
                "Laue": t["Laue"], "nsymop": t["nsymop"], "nuniq": t["nuniq"],
                "cell_choice": t["cell_choice"], "syscond": t["syscond"]}
        diffs = [k for k in want if want[k] != got[k]]
        rot = np.array(g.rot)
        tr = np.array(g.trans, dtype=float)
        if rot.shape != (t["nsymop"], 3, 3) or not np.array_equal(rot, np.array(t["rot"])):
            diffs.append("rot")
        else:
            t24 = np.rint(tr * 24).astype(int) % 24
            if tr.shape != (t["nsymop"], 3) or not np.array_equal(t24, np.array(t["trans"])):
                diffs.append("trans")
        if diffs:
            v.violation("real lookup %s differs from the table the lookup machine resolves (Sg%d/%s) in %s" %
                        (desc, x["no"], x["setting"], diffs), {"lookup": desc, "got": got, "want": want})
            continue
        # what a lookup hands out is the caller's: overwrite it in place, look the group up again (by the same request), compare again
        if replayed % 3 == 0:
            try:
                for name_ in ("rot", "trans", "syscond"):
                    obj = getattr(g, name_)
                    if isinstance(obj, np.ndarray):
                        obj *= 0
                        obj += 7
                    else:
                        first = obj[0]
                        while isinstance(first, list) and first and isinstance(first[0], list):
                            first = first[0]
                        if isinstance(first, list):
                            first[0] = 7
                        else:
                            obj[0] = 7
                g2 = sg.sg(**kw)
                rot2 = np.array(g2.rot)
                t2 = np.rint(np.array(g2.trans, dtype=float) * 24).astype(int) % 24
                if rot2.shape != (t["nsymop"], 3, 3) or not np.array_equal(rot2, np.array(t["rot"])) or \
                        not np.array_equal(t2, np.array(t["trans"])) or [int(q) for q in g2.syscond] != t["syscond"]:
                    v.violation("lookup %s: after the caller overwrote the arrays of an earlier result, the same lookup returns a different "
                                "table (results share storage)" % desc, {"lookup": desc})
            except Exception as ex:
                v.violation("lookup %s: repeating the lookup after modifying the first result raised %r" % (desc, ex), {"lookup": desc})
    # the same name with different explicit settings, in the opposite order (what one spelling was resolved to before must not
    # decide what it is resolved to now)
    for x in reversed([q for q in recs.values() if q["req"]["kind"] == "nameset" and q["pc"] == "resolved"]):
        text = _s(x["spelled"])
        t = bykey[(x["no"], x["setting"])]
        try:
            g = sg.sg(sgname=text, cell_choice=x["req"]["setting"])
            replayed += 1
            if int(g.no) != t["own_no"] or str(g.name) != t["name_text"] or int(g.nsymop) != t["nsymop"] or not np.array_equal(np.array(g.rot), np.array(t["rot"])):
                v.violation("real lookup sgname=%r cell_choice=%s (asked after the other settings of the same name) differs from the table the "
                            "lookup machine resolves (Sg%d/%s)" % (text, x["req"]["setting"], x["no"], x["setting"]), {"lookup": text, "setting": x["req"]["setting"]})
        except Exception as ex:
            v.violation("real lookup sgname=%r cell_choice=%s raised %r" % (text, x["req"]["setting"], ex), {"lookup": text})
    cov = {"states": r.distinct, "transitions": r.generated, "traces_validated_against_impl": replayed,
           "exhaustive": True, "tables": len(tabs), "operations": sum(t["nsymop"] for t in tabs),
           "dictionary_keys": len(dic), "tlc_wall_s": round(r.wall, 1),
           "rule": "one behaviour per request: 237 tables (15 named laws each), 460 number/setting pairs, every key x 6 spellings"}
    if tier == "thorough":
        cov["action_coverage"] = {k: list(val) for k, val in r.coverage.items()}
        never = [a for a in ("DoNormalise", "DoDict", "DoSuffix", "DoInstantiate", "DoLaws")
                 if r.coverage.get(a, (0, 0))[1] == 0]
        if never:
            raise common.MachineryError("vacuity: actions never taken: %s" % never)
    return v.finish("model_checking", cov, ASSUME)


def replay(path, seed):
    import json
    c = json.load(open(path))
    print("replay of", c["what"])
    return run("quick", seed)
