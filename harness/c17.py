"""C17 - CIF and PDB ingestion reproduces what the file states.

TLC (spec/CifModel.tla) enumerates the full product of file configurations and derives, per configuration, the plan
saying which item feeds which field of the atom list, with which conversion and which default.  For every
configuration the harness writes a real CIF / PDB file with seeded values, reads it with build_atomlist and compares
field by field with the plan applied to the numbers as printed in the file.  Site multiplicities that the reader has
to compute are taken from spec/Multiplicity.tla (exact orbit sizes).
"""
import math
import os
import random
import warnings

import common
import export

ASSUME = [
    "generated files use the conservative CIF 1.1 subset of the shipped example files (data block, simple items, loops, quoted symbol); "
    "text-level fidelity of PyCifRW and of float() is trusted; numbers are compared with float(text as printed)",
    "PDB space-group symbols are generated without a stand-alone '1' that is not a place-holder, P1 is not generated; element symbols are compared case-insensitively",
    "special positions use exact decimals (0, 1/8 .. 7/8); thirds are not generated (0.3333 is a general position for the reader)",
]
E8 = 8 * math.pi ** 2
ELS = ["C", "O", "N", "Si", "Fe", "S", "Ca", "TI", "cl", "H", "Pu", "U", "he"]


def num(rng, lo, hi, dec, esd):
    """a number as CIF text: plain decimal, exponent notation or with an explicit '+' (all legal CIF 1.1 numbers), optionally with
    an esd in parentheses; returns (text, the float the text states)"""
    v = rng.uniform(lo, hi)
    style = rng.random()
    if style < 0.15:
        t = "%.*e" % (dec + 1, v)                 # 1.03720e+01
    elif style < 0.22:
        t = ("%.*E" % (dec + 1, v)).replace("E+0", "E").replace("E-0", "E-")     # 1.0372E1, 9.5E-3
    else:
        t = "%.*f" % (dec, v)
    if v >= 0 and rng.random() < 0.05:
        t = "+" + t
    return t + ("(%d)" % rng.randint(1, 19) if esd else ""), float(t)


def coord(rng, esd):
    if rng.random() < 0.35:
        k = rng.choice([0, 1, 2, 3, 4, 5, 6, 7])
        t = "%.4f" % (k / 8.0)
        return t, float(t), k * 3750          # numerator over 30000
    k = rng.randint(1, 9999)
    # one coordinate in eight lies outside [0, 1): the file states -0.0312 or 1.0442 and that is what must be stored (the orbit,
    # and with it the computed multiplicity, is the same)
    shift = rng.choice([0, 0, 0, 0, 0, 0, 0, -1, 1, -2]) if rng.random() < 0.6 else 0
    t = "%.4f" % (k / 10000.0 + shift)
    return t + ("(%d)" % rng.randint(1, 9) if esd else ""), float(t), k * 3


def spell(name, rng, blanks):
    if not blanks:
        return name
    out = name[0] + " "
    for ch in name[1:]:
        out += ch + (" " if rng.random() < 0.3 else "")
    return out.rstrip()


def make_cif(cfg, plan, tab, rng):
    """returns (text, expected dict)"""
    esd = cfg["esd"]
    cellt = [num(rng, 3, 15, 4, esd) for _ in range(3)] + [num(rng, 70, 110, 3, esd) for _ in range(3)]
    sym = spell(tab["name_text"], rng, cfg["blanks"])
    nat = rng.randint(1, 12)
    atoms = []
    used = []
    for i in range(nat):
        el = rng.choice(ELS)
        used.append(el)
        kind = cfg["adp"][i % len(cfg["adp"])]
        xs = [coord(rng, esd) for _ in range(3)]
        a = {"label": "%s%d" % (el.capitalize(), i + 1), "el": el, "x": xs, "kind": kind}
        if kind in ("Uiso", "Biso"):
            a["iso"] = num(rng, 0.005, 0.08, 4, esd) if kind == "Uiso" else num(rng, 0.3, 6.0, 3, esd)
        if kind in ("Uani", "Bani"):
            a["ani"] = [num(rng, 0.005, 0.08, 4, esd) if kind == "Uani" else num(rng, 0.3, 6.0, 3, esd) for _ in range(3)] + \
                       [num(rng, -0.01, 0.01, 4, esd) if kind == "Uani" else num(rng, -0.5, 0.5, 3, esd) for _ in range(3)]
        a["occ"] = (rng.choice([("1", 1.0), ("1.0", 1.0), ("1.00(1)", 1.0), ("0", 0.0), ("0.0", 0.0), ("1.", 1.0), (".5", 0.5), ("0.5000", 0.5), ("-0", 0.0)]) if rng.random() < 0.2 else num(rng, 0.1, 1.0, 3, esd)) if cfg["occ"] else None
        a["mult"] = rng.choice([1, 2, 3, 4, 6, 8, 12, 24]) if cfg["mult"] != "absent" else None
        atoms.append(a)
    L = []
    if cfg["global"] and rng.random() < 0.5:
        L += ["data_global", "_journal_name_full 'Acta Cryst.'", ""]
    L += ["data_gen%d" % rng.randint(1, 999)]
    L += ["_cell_length_a %s" % cellt[0][0], "_cell_length_b %s" % cellt[1][0], "_cell_length_c %s" % cellt[2][0],
          "_cell_angle_alpha %s" % cellt[3][0], "_cell_angle_beta %s" % cellt[4][0], "_cell_angle_gamma %s" % cellt[5][0],
          ]
    # the symbol as CIF allows a string to be written: quoted (blanks inside), quoted with a TAB between the parts, double-quoted, or as
    # a semicolon-delimited text field on lines of its own; "with whitespace removed" is what the reader must deliver in every case
    style_ = rng.random()
    if style_ < 0.6 or "'" in sym:
        L += ["_symmetry_space_group_name_H-M '%s'" % sym]
    elif style_ < 0.75:
        L += ["_symmetry_space_group_name_H-M '%s'" % (sym.replace(" ", "\t", 1) if " " in sym else sym + "\t")]
    elif style_ < 0.85:
        L += ['_symmetry_space_group_name_H-M "%s"' % sym]
    else:
        L += ["_symmetry_space_group_name_H-M", ";", sym, ";"]
    disp = {}
    if cfg["typeloop"] != "absent":
        L += ["loop_", "_atom_type_symbol", "_atom_type_scat_dispersion_real", "_atom_type_scat_dispersion_imag"]
        for el in sorted(set(used)):
            if cfg["typeloop"] == "dispersion":
                a, b = num(rng, -1.5, 0.5, 4, esd), num(rng, 0.0, 2.0, 4, esd)
                L.append("%s %s %s" % (el, a[0], b[0]))
                disp[el.upper()] = [a[1], b[1]]
            else:
                L.append("%s ? ?" % el)
                disp[el.upper()] = None
    else:
        for el in used:
            disp[el.upper()] = None
    cols = ["_atom_site_label", "_atom_site_type_symbol", "_atom_site_fract_x", "_atom_site_fract_y", "_atom_site_fract_z"]
    kinds = set(a["kind"] for a in atoms)
    has_type_col = kinds != {"absent"}
    if has_type_col:
        cols.append("_atom_site_adp_type")
    if kinds & {"Uiso"}:
        cols.append("_atom_site_U_iso_or_equiv")
    if kinds & {"Biso"}:
        cols.append("_atom_site_B_iso_or_equiv")
    if cfg["occ"]:
        cols.append("_atom_site_occupancy")
    if cfg["mult"] == "standard":
        cols.append("_atom_site_symmetry_multiplicity")
    elif cfg["mult"] == "shelx":
        cols.append("_atom_site_symetry_multiplicity")
    L += ["loop_"] + cols
    for a in atoms:
        row = [a["label"], a["el"], a["x"][0][0], a["x"][1][0], a["x"][2][0]]
        if has_type_col:
            row.append(a["kind"] if a["kind"] != "absent" else "Uiso")     # a file cannot leave the type out for one atom only
        if kinds & {"Uiso"}:
            row.append(a["iso"][0] if a["kind"] == "Uiso" else ("0.0100" if a["kind"] == "absent" else "?"))
        if kinds & {"Biso"}:
            row.append(a["iso"][0] if a["kind"] == "Biso" else "?")
        if cfg["occ"]:
            row.append(a["occ"][0])
        if cfg["mult"] != "absent":
            row.append(str(a["mult"]))
        L.append(" ".join(row))
    ani = [a for a in atoms if a["kind"] in ("Uani", "Bani")]
    if ani:
        cols = ["_atom_site_aniso_label"]
        if kinds & {"Uani"}:
            cols += ["_atom_site_aniso_U_%s" % s for s in ("11", "22", "33", "23", "13", "12")]
        if kinds & {"Bani"}:
            cols += ["_atom_site_aniso_B_%s" % s for s in ("11", "22", "33", "23", "13", "12")]
        L += ["loop_"] + cols
        # the aniso loop need not list the atoms in the order of the site loop (rows are matched by label)
        ani = list(ani)
        rng.shuffle(ani)
        for a in ani:
            row = [a["label"]]
            if kinds & {"Uani"}:
                row += [t[0] for t in a["ani"]] if a["kind"] == "Uani" else ["?"] * 6
            if kinds & {"Bani"}:
                row += [t[0] for t in a["ani"]] if a["kind"] == "Bani" else ["?"] * 6
            L.append(" ".join(row))
    if cfg["global"] and L[0] != "data_global":
        L += ["", "data_global", "_journal_name_full 'Acta Cryst.'"]
    # expected, by the plan
    exp_atoms = []
    for i, a in enumerate(atoms):
        rule = plan["adp"][i % len(plan["adp"])]
        if a["kind"] == "absent" and has_type_col:
            # mixed file: the atom had to be given a type; it is then an ordinary Uiso atom with the printed value
            adp_type, adp = "Uiso", 0.01
        elif rule["type"] == "None":
            adp_type, adp = None, 0.0
        elif rule["n"] == 1:
            adp_type, adp = rule["type"], a["iso"][1] / (E8 if rule["conv"] == "div8pi2" else 1.0)
        else:
            adp_type, adp = rule["type"], [t[1] / (E8 if rule["conv"] == "div8pi2" else 1.0) for t in a["ani"]]
        exp_atoms.append({"label": a["label"], "atomtype": a["el"].upper(), "pos": [x[1] for x in a["x"]], "p30000": [x[2] for x in a["x"]],
                          "adp_type": adp_type, "adp": adp, "occ": a["occ"][1] if a["occ"] else 1.0, "mult": a["mult"]})
    exp = {"cell": [t[1] for t in cellt], "sgname": "".join(sym.split()), "atoms": exp_atoms, "dispersion": disp}
    return "\n".join(L) + "\n", exp


def pdb_tokens(name, placeholders):
    if placeholders:
        return "%s 1 %s 1" % (name[0], name[1:])
    return "%s %s" % (name[0], name[1:])


def make_pdb(cfg, plan, tab, rng):
    cell = [round(rng.uniform(20, 90), 3) for _ in range(3)] + [round(rng.uniform(80, 100), 2) for _ in range(3)]
    sym = pdb_tokens(tab["name_text"], cfg["placeholders"])
    L = ["HEADER    GENERATED", "CRYST1%9.3f%9.3f%9.3f%7.2f%7.2f%7.2f %-11s%4d" % (cell[0], cell[1], cell[2], cell[3], cell[4], cell[5], sym, tab["nsymop"])]
    S = []
    for i in range(3):
        row = [round(rng.uniform(-0.004, 0.004) + (0.02 if i == j else 0.0), 6) for j in range(3)]
        tr = round(rng.uniform(-0.5, 0.5), 5) if cfg["scaletrans"] else 0.0
        S.append(row + [tr])
        L.append("SCALE%d    %10.6f%10.6f%10.6f     %10.5f" % (i + 1, row[0], row[1], row[2], tr))
    atoms = []
    for k in range(rng.randint(1, 12)):
        el = rng.choice(["C", "N", "O", "S", "FE", "ZN", "CA"])
        elp = el.lower().capitalize() if cfg["lowercase_element"] else el
        rec = "HETATM" if (cfg["hetatm"] and k % 2) else "ATOM"
        x, y, z = [round(rng.uniform(-300, 300), 3) for _ in range(3)]      # uses all 8 columns when <= -100
        occ, b = rng.choice([round(rng.uniform(0.1, 1.0), 2), 1.0, 0.0]), round(rng.uniform(2, 160), 2)
        name = rng.choice(["N", "CA", "C", "O", "CB", "OG1", "FE", "ZN", "HD11", "1HB"])
        serial = k + 1 if rng.random() < 0.6 else rng.randint(100, 99999)          # five-digit serials fill their columns
        resseq = k + 1 if rng.random() < 0.6 else rng.randint(100, 9999)
        L.append("%-6s%5d %-4s %3s %s%4d    %8.3f%8.3f%8.3f%6.2f%6.2f          %2s" % (rec, serial, name, "LYS", "A", resseq, x, y, z, occ, b, elp))
        pos = [S[i][0] * x + S[i][1] * y + S[i][2] * z + S[i][3] for i in range(3)]
        atoms.append({"label": name, "atomtype": el, "pos": pos, "adp_type": "Uiso", "adp": b / E8, "occ": occ, "mult": None, "general": True})
    L.append("END")
    exp = {"cell": cell, "sgname": tab["name_text"].lower(), "atoms": atoms, "dispersion": {a["atomtype"]: None for a in atoms}}
    return "\n".join(L) + "\n", exp


def same(a, b, rel=1e-12):
    if isinstance(b, list):
        return isinstance(a, (list, tuple)) or hasattr(a, "__len__") and len(a) == len(b) and all(same(x, y, rel) for x, y in zip(a, b))
    try:
        return abs(float(a) - float(b)) <= rel * max(1.0, abs(float(b)))
    except Exception:
        return False


def seq_same(a, b, rel=1e-12):
    try:
        return len(a) == len(b) and all(abs(float(x) - float(y)) <= rel * max(1.0, abs(float(y))) for x, y in zip(a, b))
    except Exception:
        return False


def run(tier, seed):
    warnings.simplefilter("ignore")
    import logging
    logging.getLogger("xfab").setLevel(logging.CRITICAL)
    logging.getLogger("xfab.structure").setLevel(logging.CRITICAL)
    v = common.Verdict("C17", tier, seed)
    wd = common.workdir("C17")
    rng = random.Random(seed + 17)
    r = common.run_tlc("CifModel", "MC_CifModel.cfg", wd, timeout=1200)
    if r.violated:
        raise common.MachineryError("CifModel.tla: %s violated" % r.violated)
    tabs, dic = export.write_tables_module(wd)
    std = [(i, t) for i, t in enumerate(tabs) if t["setting"] == "standard"]
    pdb_ok = [(i, t) for i, t in std if t["no"] != 1 and "1" not in [t["name_text"][1:]]]
    mono = [(i, t) for i, t in std if 3 <= t["no"] <= 15]
    recs = list(r.records)
    rng.shuffle(recs)
    cifs = [x for x in recs if x["cfg"]["kind"] == "cif"]
    pdbs = [x for x in recs if x["cfg"]["kind"] == "pdb"]
    if tier == "quick":
        cifs = cifs[:380]
    jobs = []
    for x in cifs:
        ti, t = rng.choice(std)
        jobs.append((x, ti, t) + make_cif(x["cfg"], x["plan"], t, rng))
    for x in pdbs * (2 if tier == "quick" else 8):
        ti, t = rng.choice(mono) if x["cfg"]["placeholders"] else rng.choice(pdb_ok)
        jobs.append((x, ti, t) + make_pdb(x["cfg"], x["plan"], t, rng))
    # exact orbit sizes for the positions whose multiplicity the reader has to compute
    cases = {}
    for (x, ti, t, text, exp) in jobs:
        if x["cfg"]["kind"] == "cif" and x["cfg"]["mult"] == "absent":
            for a in exp["atoms"]:
                cases[(ti + 1, tuple(a["p30000"]))] = [ti + 1, [list(a["p30000"]), 30000]]
    common.write_data_module(wd, "C15Cases", {"Cases": common.TlaSet(list(cases.values())), "TableSel": common.TlaSet([]), "Points": common.TlaSet([])})
    rm = common.run_tlc("Multiplicity", "MC_Multiplicity.cfg", wd, timeout=2400)
    orbit = {(x["t"], tuple(x["p"])): x["m"] for x in rm.records}
    from xfab import structure
    nfiles = 0
    prev = None
    for k, (x, ti, t, text, exp) in enumerate(jobs):
        cfg = x["cfg"]
        # one file NAME for all files of a kind, rewritten in place (what a refinement loop does): what was parsed from that path before
        # must not be served again
        path = os.path.join(wd, "current.%s" % cfg["kind"])
        with open(path, "w") as f:
            f.write(text)
        nfiles += 1
        desc = {"config": cfg, "sg": [t["no"], t["name_text"]], "file": text[:1500]}
        v.case(repr(sorted(cfg.items(), key=lambda kv: kv[0])) + str(k), sample={"config": cfg, "plan_symmulti": x["plan"]["symmulti"], "sg": t["name_text"]} if len(v.samples) < 4 else None)
        try:
            b = structure.build_atomlist()
            if cfg["kind"] == "cif":
                # every documented route to the same block: in one call (block guessed or named), CIFopen first and CIFread after
                # (block guessed or named), or the block object handed over
                import re as _re
                blk = _re.search(r"^data_(gen\d+)", text, _re.M).group(1)
                route = k % 5
                if route == 0:
                    b.CIFread(ciffile=path)
                elif route == 1:
                    b.CIFread(ciffile=path, cifblkname=blk)
                elif route == 2:
                    b.CIFopen(ciffile=path)
                    b.CIFread()
                elif route == 3:
                    b.CIFopen(ciffile=path, cifblkname=blk)
                    b.CIFread()
                else:
                    b.CIFread(cifblk=structure.build_atomlist().CIFopen(ciffile=path, cifblkname=blk))
                desc["route"] = ["CIFread(file)", "CIFread(file, block)", "CIFopen(file); CIFread()", "CIFopen(file, block); CIFread()",
                                 "CIFread(cifblk=CIFopen(file, block))"][route]
            else:
                b.PDBread(pdbfile=path)
            al = b.atomlist
        except Exception as ex:
            v.violation("reading a well-formed %s file raised %r (configuration %s)" % (cfg["kind"].upper(), ex, cfg), desc)
            continue
        finally:
            os.remove(path)
        bad = []
        # the atom list read from the PREVIOUS file must not have been touched by reading this one (lists or dictionaries shared
        # between build_atomlist objects, default arguments that accumulate)
        if prev is not None:
            pal, psnap = prev
            now = (len(pal.atom), list(pal.cell) if pal.cell is not None else None, pal.sgname, sorted(str(q) for q in pal.dispersion),
                   [(a_.label, a_.atomtype, list(a_.pos)) for a_ in pal.atom])
            if now != psnap:
                bad.append("the atom list read from the previous file changed while this file was read (%d atoms before, %d now)" % (len(psnap[4]), len(pal.atom)))
        prev = (al, (len(al.atom), list(al.cell) if al.cell is not None else None, al.sgname, sorted(str(q) for q in al.dispersion),
                     [(a_.label, a_.atomtype, list(a_.pos)) for a_ in al.atom]))
        if not seq_same(al.cell, exp["cell"]):
            bad.append("cell %s, file states %s" % (list(al.cell), exp["cell"]))
        got_sg = al.sgname if cfg["kind"] == "cif" else str(al.sgname).lower()
        if got_sg != exp["sgname"]:
            bad.append("space-group symbol %r, file states %r" % (al.sgname, exp["sgname"]))
        if len(al.atom) != len(exp["atoms"]):
            bad.append("%d atoms read, file holds %d" % (len(al.atom), len(exp["atoms"])))
        else:
            for i, (g, e) in enumerate(zip(al.atom, exp["atoms"])):
                if g.label != e["label"]:
                    bad.append("atom %d label %r, file %r" % (i, g.label, e["label"]))
                if str(g.atomtype).upper() != e["atomtype"].upper() or (cfg["kind"] == "cif" and g.atomtype != e["atomtype"]):
                    bad.append("atom %d element %r, file %r" % (i, g.atomtype, e["atomtype"]))
                if not seq_same(g.pos, e["pos"], 1e-12):
                    bad.append("atom %d position %s, file %s" % (i, list(g.pos), e["pos"]))
                if g.adp_type != e["adp_type"]:
                    bad.append("atom %d adp_type %r, expected %r" % (i, g.adp_type, e["adp_type"]))
                elif isinstance(e["adp"], list):
                    if not seq_same(g.adp, e["adp"]):
                        bad.append("atom %d anisotropic parameters %s, file gives %s (order 11,22,33,23,13,12; B/(8 pi^2) for B)" % (i, list(g.adp), e["adp"]))
                elif not same(g.adp, e["adp"]):
                    bad.append("atom %d displacement parameter %r, file gives %r" % (i, g.adp, e["adp"]))
                if not same(g.occ, e["occ"]):
                    bad.append("atom %d occupancy %r, file %r" % (i, g.occ, e["occ"]))
                if e["mult"] is not None:
                    wantm = e["mult"]
                elif cfg["kind"] == "pdb":
                    wantm = t["nsymop"]
                else:
                    wantm = orbit[(ti + 1, tuple(e["p30000"]))]
                if not same(g.symmulti, wantm):
                    bad.append("atom %d site multiplicity %r, expected %r (%s)" % (i, g.symmulti, wantm, x["plan"]["symmulti"]["src"]))
        gd = {str(kk): vv for kk, vv in al.dispersion.items()}
        if set(gd) != set(exp["dispersion"]):
            bad.append("dispersion keys %s, expected %s" % (sorted(gd), sorted(exp["dispersion"])))
        else:
            for kk, vv in exp["dispersion"].items():
                if (vv is None) != (gd[kk] is None) or (vv is not None and not seq_same(gd[kk], vv)):
                    bad.append("dispersion of %s is %r, file states %r" % (kk, gd[kk], vv))
        for m in bad[:2]:
            v.violation("%s reader: %s (configuration %s, Sg %s)" % (cfg["kind"].upper(), m, {k2: cfg[k2] for k2 in cfg if k2 != "kind"}, t["name_text"]), desc)
    if v.violations:
        seen = {}
        for q in v.violations:
            seen.setdefault(q["what"].split("(configuration")[0][:45].rstrip("0123456789.- []"), q)
        v.notes.append("%d violating files collapsed to %d" % (len(v.violations), len(seen)))
        v.violations = list(seen.values())
    cov = {"evaluations": nfiles, "distinct_nontrivial": len(v.distinct), "configurations_enumerated_by_tlc": len(r.records),
           "states": r.distinct + rm.distinct, "transitions": r.generated + rm.generated,
           "orbit_sizes_from_model": len(orbit), "exhaustive": tier == "thorough",
           "rule": "one generated file per configuration of CifModel.tla (adp pattern x esd x occupancy x multiplicity key x atom-type loop x "
                   "global block x symbol spelling; PDB: HETATM x SCALE translation x place-holders x element case), random group, 1-12 atoms; "
                   "non-trivial = every file (each exercises at least one conversion rule)"}
    return v.finish("exploration", cov, ASSUME)


def replay(path, seed):
    return run("quick", seed)
