#!/bin/sh
# Offline setup: nothing to build. Verifies the tools the checks need are present.
set -e
cd "$(dirname "$0")"
test -x /venv/bin/python
test -f /opt/veriftools/tla/tla2tools.jar
java -version >/dev/null 2>&1
/venv/bin/python -c "import numpy, hypothesis, CifFile"
mkdir -p .work evidence
echo "setup ok"
