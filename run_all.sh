#!/bin/sh
# Runs every claimed check (quick tier by default) against /repo and rewrites the evidence files.
# usage: ./run_all.sh [quick|thorough] [IDs...]
cd "$(dirname "$0")"
mkdir -p .work
TIER=${1:-quick}
[ $# -gt 0 ] && shift
IDS="$@"
[ -z "$IDS" ] && IDS=$(python3 -c "import json; print(' '.join(c['property_id'] for c in json.load(open('MANIFEST.json'))['checks']))")
rc_all=0
for id in $IDS; do
  s=$(date +%s)
  ./check $id --tier $TIER > .work/run_$id.log 2>&1
  rc=$?
  e=$(date +%s)
  echo "$id rc=$rc $((e-s))s $(grep -c '^VIOLATION' .work/run_$id.log) violations, $(grep -c '^KNOWN-FINDING' .work/run_$id.log) known"
  [ $rc -ne 0 ] && rc_all=1
done
exit $rc_all
