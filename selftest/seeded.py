#!/usr/bin/env python3
"""Confirm an independently seeded change and run the checks against it.

usage: selftest/seeded.py <dir with patch.diff, demo.py, meta.json> <PID> [more PIDs]
 - fresh scratch worktree of /repo HEAD outside /repo and /verif, patch applied
 - the repository's 73 tests must pass with the change
 - the demonstration must exit 0 on /repo and non-zero on the changed tree
 - then ./check <PID> --tier quick with VERIF_REPO=<worktree> (expected: exit 1)
The worktree is removed afterwards.  Prints a JSON summary.
"""
import json
import os
import shutil
import subprocess
import sys
import tempfile

VERIF = os.path.dirname(os.path.dirname(os.path.abspath(__file__)))


def sh(cmd, **kw):
    p = subprocess.run(cmd, stdout=subprocess.PIPE, stderr=subprocess.STDOUT, **kw)
    return p.returncode, p.stdout.decode("utf-8", "replace")


def main():
    src = os.path.abspath(sys.argv[1])
    pids = sys.argv[2:]
    wt = tempfile.mkdtemp(prefix="xfab-seed-")
    os.rmdir(wt)
    res = {"dir": src, "pids": pids}
    try:
        rc, out = sh(["git", "-C", "/repo", "worktree", "add", "-q", "--detach", wt, "HEAD"])
        if rc:
            raise SystemExit("worktree failed: " + out)
        rc, out = sh(["git", "-C", wt, "apply", os.path.join(src, "patch.diff")])
        res["patch_applies"] = rc == 0
        if rc:
            res["error"] = out[-500:]
            return res
        env = dict(os.environ, PYTHONPATH=wt)
        rc, out = sh(["/venv/bin/python", "-m", "pytest", "-q", "-p", "no:cacheprovider"], cwd=wt, env=env)
        res["tests"] = out.strip().splitlines()[-1] if out.strip() else ""
        res["tests_pass"] = rc == 0 and "73 passed" in out
        rc0, o0 = sh(["/venv/bin/python", os.path.join(src, "demo.py")], env=dict(os.environ, XFAB_ROOT="/repo", PYTHONPATH="/repo"), cwd="/tmp")
        rc1, o1 = sh(["/venv/bin/python", os.path.join(src, "demo.py")], env=dict(os.environ, XFAB_ROOT=wt, PYTHONPATH=wt), cwd="/tmp")
        res["demo_on_repo"] = rc0
        res["demo_on_change"] = rc1
        res["demo_output_on_change"] = o1[-600:]
        res["checks"] = {}
        for pid in pids:
            rc, out = sh([os.path.join(VERIF, "check"), pid, "--tier", "quick"], cwd=VERIF, env=dict(os.environ, VERIF_REPO=wt, VERIF_WORK=os.path.join(wt, ".verif-work"), VERIF_EVIDENCE=os.path.join(wt, ".verif-evidence")))
            viol = [l for l in out.splitlines() if l.startswith("VIOLATION")]
            res["checks"][pid] = {"rc": rc, "violations": len(viol), "first": viol[0][:400] if viol else "",
                                  "machinery": [l[:300] for l in out.splitlines() if l.startswith("MACHINERY")][:1]}
        return res
    finally:
        sh(["git", "-C", "/repo", "worktree", "remove", "--force", wt])
        shutil.rmtree(wt, ignore_errors=True)
        print(json.dumps(res, indent=1))


if __name__ == "__main__":
    main()
