#!/usr/bin/env python3
"""Self-test of the machinery: apply one-line mutants / benign variants to a scratch copy of xfab and run
the quick check of the affected property against it (VERIF_REPO override).  Not registered as a check.

usage: selftest/run.py [name ...]      (no name = all)
"""
import json
import os
import shutil
import subprocess
import sys
import tempfile

VERIF = os.path.dirname(os.path.dirname(os.path.abspath(__file__)))
sys.path.insert(0, os.path.join(VERIF, "selftest"))
from mutants import MUTANTS  # noqa


def run_one(m):
    d = tempfile.mkdtemp(prefix="xfab-mut-")
    try:
        shutil.copytree("/repo/xfab", os.path.join(d, "xfab"))
        for (f, old, new) in m["edits"]:
            p = os.path.join(d, f)
            s = open(p).read()
            if s.count(old) < 1:
                return {"name": m["name"], "error": "pattern not found in %s" % f}
            s = s.replace(old, new, m.get("count", 1))
            open(p, "w").write(s)
        out = {}
        for pid in m["pids"]:
            os.makedirs(os.path.join(d, "work"), exist_ok=True)
            os.makedirs(os.path.join(d, "evidence"), exist_ok=True)
            e = dict(os.environ, VERIF_REPO=d, VERIF_WORK=os.path.join(d, "work"), VERIF_EVIDENCE=os.path.join(d, "evidence"))
            p = subprocess.run([os.path.join(VERIF, "check"), pid, "--tier", "quick"], cwd=VERIF, env=e,
                               stdout=subprocess.PIPE, stderr=subprocess.STDOUT)
            txt = p.stdout.decode("utf-8", "replace")
            nviol = sum(1 for l in txt.splitlines() if l.startswith("VIOLATION"))
            out[pid] = {"rc": p.returncode, "violations": nviol,
                        "first": next((l[:260] for l in txt.splitlines() if l.startswith("VIOLATION")), ""),
                        "machinery": [l[:200] for l in txt.splitlines() if l.startswith("MACHINERY")][:1]}
        return {"name": m["name"], "kind": m["kind"], "result": out}
    finally:
        shutil.rmtree(d, ignore_errors=True)


def main():
    names = sys.argv[1:]
    res = []
    for m in MUTANTS:
        if names and m["name"] not in names:
            continue
        r = run_one(m)
        res.append(r)
        if "error" in r:
            print("%-40s ERROR %s" % (r["name"], r["error"]))
            continue
        for pid, o in r["result"].items():
            want = 1 if r["kind"] == "mutant" else 0
            ok = (o["rc"] == want)
            print("%-40s %-7s %s rc=%d viol=%d %s %s" % (r["name"], r["kind"], pid, o["rc"], o["violations"],
                                                        "OK" if ok else "UNEXPECTED", o["first"][:150] or o["machinery"]))
    # restore evidence for the real tree is the caller's job (checks rewrite evidence on every run)
    json.dump(res, open(os.path.join(VERIF, ".work", "selftest.json"), "w"), indent=1)


if __name__ == "__main__":
    main()
