"""Mutants (must be caught: rc=1) and benign variants (must stay silent: rc=0).
Each compiles and passes the repository's 73 tests (checked when added)."""

MUTANTS = [
    # ---- C04
    {"name": "c04-sign-in-sg96", "kind": "mutant", "pids": ["C04"],
     "edits": [("xfab/sglib.py", 'class Sg96:\n    def __init__(self,cell_choice=\'standard\'):\n        self.no = 96\n        self.name = "P43212"\n        self.crystal_system = "tetragonal"\n        self.Laue = "4/mmm"\n        self.nsymop = 8\n        self.nuniq = 8\n        self.cell_choice = "standard"\n        self.syscond = [0, 0, 0, 0, 0, 0, 0, 0, 0, 0, 0, 0,\n                        0, 0, 0, 0, 0, 0, 0, 0, 2, 2, 4,\n                        0, 0, 0]\n        self.rot = [\n                [[1,0,0],[0,1,0],[0,0,1]], \n                [[-1,0,0],[0,-1,0],[0,0,1]], \n                [[0,-1,0],[1,0,0],[0,0,1]]', 'class Sg96:\n    def __init__(self,cell_choice=\'standard\'):\n        self.no = 96\n        self.name = "P43212"\n        self.crystal_system = "tetragonal"\n        self.Laue = "4/mmm"\n        self.nsymop = 8\n        self.nuniq = 8\n        self.cell_choice = "standard"\n        self.syscond = [0, 0, 0, 0, 0, 0, 0, 0, 0, 0, 0, 0,\n                        0, 0, 0, 0, 0, 0, 0, 0, 2, 2, 4,\n                        0, 0, 0]\n        self.rot = [\n                [[1,0,0],[0,1,0],[0,0,1]], \n                [[-1,0,0],[0,-1,0],[0,0,1]], \n                [[0,-1,0],[1,0,0],[0,0,-1]]'),
               ]},
    # ---- C05 / C06
    {"name": "c05-segment-4m", "kind": "mutant", "pids": ["C05", "C06"],
     "edits": [("xfab/tools.py", "[[ 1, 2,  0], [ 1, 1, 0], [ 0, 1, 0], [ 0, 0,  1]]])\n\n    # Hexagonal",
                "[[ 1, 2,  0], [ 1, 1, 0], [ 1, 1, 0], [ 0, 0,  1]]])\n\n    # Hexagonal")]},
    {"name": "c05-no-inversion-in-expand", "kind": "mutant", "pids": ["C05"],
     "edits": [("xfab/tools.py", "Rots = n.concatenate((spg.rot[:spg.nuniq],-spg.rot[:spg.nuniq]))",
                "Rots = n.concatenate((spg.rot[:spg.nuniq],spg.rot[:spg.nuniq]))")]},
    {"name": "c05-syscond-sg14", "kind": "mutant", "pids": ["C05"],
     "edits": [("xfab/sglib.py", 'class Sg14:\n    def __init__(self,cell_choice=\'standard\'):\n        self.no = 14\n        self.name = "P21/c"\n        self.crystal_system = "monoclinic"\n        self.Laue = "2/m"\n        self.nsymop = 4\n        self.nuniq = 4\n        self.cell_choice = "standard"\n        self.syscond = [0, 0, 0, 0, 0, 0, 0, 0, 0, 0, 0, 0,\n                        0, 0, 2, 0, 0, 0, 0, 0, 0, 2, 2,\n                        0, 0, 0]\n        ', 'class Sg14:\n    def __init__(self,cell_choice=\'standard\'):\n        self.no = 14\n        self.name = "P21/c"\n        self.crystal_system = "monoclinic"\n        self.Laue = "2/m"\n        self.nsymop = 4\n        self.nuniq = 4\n        self.cell_choice = "standard"\n        self.syscond = [0, 0, 0, 0, 0, 0, 0, 0, 0, 0, 0, 0,\n                        0, 0, 0, 0, 0, 0, 0, 0, 0, 2, 2,\n                        0, 0, 0]\n        ')]},
    {"name": "c06-sort-wrong-column", "kind": "mutant", "pids": ["C06"],
     "edits": [("xfab/laue.py", "H =  H[n.argsort(H, 0)[:, 3], :] # sort hkl's according to stl\n    if output_stl == None:\n        H = H[: , :3]\n    return H\n\n\n\ndef genhkl(",
                "H =  H[n.argsort(H, 0)[:, 2], :] # sort hkl's according to stl\n    if output_stl == None:\n        H = H[: , :3]\n    return H\n\n\n\ndef genhkl(")]},
    {"name": "c06-min-inclusive", "kind": "mutant", "pids": ["C06", "C05"],
     "edits": [("xfab/tools.py", "if  sintlH > sintlmin and sintlH <= sintlmax:\n                                H = n.concatenate((H, [HLAST]))\n                                stl = n.concatenate((stl, [sintlH]))\n                        else: \n                            nref = nref - 1\n                    HNEW = HLAST + segm[segn, 1, :]\n                    sintlH = sintl(unit_cell, HNEW)\n                    #if (sintlH >= sintlmin) and (sintlH <= sintlmax):\n                    if sintlH <= sintlmax*sintl_scale:",
                "if  sintlH > sintlmin and sintlH < sintlmax*0.97:\n                                H = n.concatenate((H, [HLAST]))\n                                stl = n.concatenate((stl, [sintlH]))\n                        else: \n                            nref = nref - 1\n                    HNEW = HLAST + segm[segn, 1, :]\n                    sintlH = sintl(unit_cell, HNEW)\n                    #if (sintlH >= sintlmin) and (sintlH <= sintlmax):\n                    if sintlH <= sintlmax*sintl_scale:")]},
    {"name": "c05-benign-sintl-refactor", "kind": "benign", "pids": ["C05"],
     "edits": [("xfab/tools.py", "    stl = n.sqrt(part1) / (2*n.sqrt(part2))\n\n    return stl",
                "    stl = 0.5*n.sqrt(part1/part2)\n\n    return stl")]},
    # ---- C11
    {"name": "c11-fliplr-flipud-inverse-branch", "kind": "mutant", "pids": ["C11"],
     "edits": [("xfab/detector.py", "            else: #inverse direction from (dety,detz) to imageformat\n                img = n.fliplr(img)\n        return img",
                "            else: #inverse direction from (dety,detz) to imageformat\n                img = n.flipud(img)\n        return img")]},
    {"name": "c11-detsize-not-transposed", "kind": "mutant", "pids": ["C11"],
     "edits": [("xfab/detector.py", "    det_size = n.array([detz_size-1,\n                        dety_size-1])\n    coor = n.dot(omat, coor)- n.clip(",
                "    det_size = n.array([dety_size-1,\n                        detz_size-1])\n    coor = n.dot(omat, coor)- n.clip(")]},
    {"name": "c11-eta-branch", "kind": "mutant", "pids": ["C11"],
     "edits": [("xfab/detector.py", "    if radcoor[0] <= 0:", "    if radcoor[0] < -0.5:")]},
    {"name": "c11-benign-omat-T", "kind": "benign", "pids": ["C11"],
     "edits": [("xfab/detector.py", "    omat = n.linalg.inv(omat)\n", "    omat = n.transpose(omat)*1.0\n")]},
    # ---- C15
    {"name": "c15-transpose-again", "kind": "mutant", "pids": ["C15"],
     "edits": [("xfab/structure.py", "lp[i, :] = n.dot(mysg.rot[i], position) + mysg.trans[i]",
                "lp[i, :] = n.dot(position, mysg.rot[i]) + mysg.trans[i]")]},
    {"name": "c15-loose-tolerance", "kind": "mutant", "pids": ["C15"],
     "edits": [("xfab/structure.py", "if n.sum(n.abs(t - n.round(t))) < 0.00001:", "if n.sum(n.abs(t - n.round(t))) < 0.2:")]},
]
