#!/usr/bin/env python3
"""Mutation campaign: generic one-token mutants of the functions each property is anchored in.

For every property a set of (file, function) anchors is mutated with generic operators (+/-, comparison boundaries, index
shifts, sin/cos, numeric literals, transposes, argument swaps, abs removal).  A mutant is kept only if the repository's own
test suite still passes on it (that is the premise of the task: changes the tests cannot see); the quick check of the property
then runs against the mutated copy (VERIF_REPO, private work and evidence directories so that several run in parallel).

Survivors (tests pass AND check passes) are written to .work/automutate/<PID>.survivors.json for a human to sort into
equivalent mutants and detection gaps.  Not registered as a check; nothing here touches /repo.

usage: selftest/automutate.py [-n PER_PROPERTY] [-j JOBS] [--seed S] [PID ...]
"""
import ast
import json
import os
import random
import re
import shutil
import subprocess
import sys
import tempfile
from concurrent.futures import ThreadPoolExecutor

VERIF = os.path.dirname(os.path.dirname(os.path.abspath(__file__)))
REPO = "/repo"

T, L = "xfab/tools.py", "xfab/laue.py"
ANCHORS = {
    "C01": [(T, ["form_b_mat", "form_a_mat", "form_a_mat_inv", "cell_volume", "cell_invert", "a_to_cell", "b_to_cell", "sintl"]),
            (L, ["form_b_mat", "form_a_mat", "form_a_mat_inv", "cell_volume", "cell_invert", "a_to_cell", "b_to_cell", "sintl"])],
    "C02": [(T, ["u_to_ubi", "ubi_to_u", "ubi_to_cell", "ubi_to_u_b", "ubi_to_rod", "ub_to_u_b"]),
            (L, ["u_to_ubi", "ubi_to_u", "ubi_to_cell", "ubi_to_u_b", "ubi_to_rod", "ub_to_u_b"])],
    "C03": [(T, ["euler_to_u", "u_to_euler", "_arctan2", "rod_to_u", "u_to_rod", "form_omega_mat", "form_omega_mat_general", "quart_to_omega", "detect_tilt"]),
            (L, ["euler_to_u", "u_to_euler", "_arctan2", "rod_to_u", "u_to_rod", "form_omega_mat", "form_omega_mat_general", "quart_to_omega", "detect_tilt"])],
    "C04": [("xfab/sg.py", ["__init__"])],
    "C05": [(T, ["genhkl_all", "genhkl_base", "sysabs", "sysabs_unique"]), (L, ["genhkl_all", "genhkl_base", "sysabs", "sysabs_unique"])],
    "C06": [(T, ["genhkl_unique", "genhkl_base"]), (L, ["genhkl_unique", "genhkl_base"])],
    "C07": [("xfab/structure.py", ["StructureFactor", "Uij2betaij"])],
    "C08": [("xfab/structure.py", ["StructureFactor", "Uij2betaij", "FormFactor"])],
    "C09": [(T, ["find_omega_general", "find_omega_quart", "find_omega_wedge", "find_omega", "tth", "tth2"]),
            (L, ["find_omega_general", "find_omega_quart", "find_omega_wedge", "find_omega", "tth", "tth2"])],
    "C10": [("xfab/detector.py", ["det_coor", "det_coor2", "detector_to_lab", "det_v"]), (T, ["detect_tilt"])],
    "C11": [("xfab/detector.py", ["trans_orientation", "image_flipping", "detyz_to_xy", "xy_to_detyz", "detyz_to_eta_and_radpix",
                                  "eta_and_radpix_to_detyz", "distort"])],
    "C12": [("xfab/symmetry.py", ["Umis", "permutations", "rotations", "add_perm", "add_rot"])],
    "C13": [(T, ["epsilon_to_b", "b_to_epsilon", "epsilon_to_b_old", "b_to_epsilon_old", "ubi_to_u_and_eps"]),
            (L, ["epsilon_to_b", "b_to_epsilon", "epsilon_to_b_old", "b_to_epsilon_old", "ubi_to_u_and_eps"])],
    "C14": [(L, ["form_b_mat", "b_to_cell", "ubi_to_u", "u_to_ubi", "ubi_to_u_b", "tth2", "find_omega", "find_omega_general", "find_omega_quart",
                 "find_omega_wedge", "sintl", "tth", "reduce_cell", "genhkl", "sysabs"])],
    "C15": [("xfab/structure.py", ["multiplicity"])],
    "C16": [("xfab/structure.py", ["FormFactor"])],
    "C17": [("xfab/structure.py", ["CIFread", "PDBread", "remove_esd", "CIFopen", "add_atom"])],
    "C18": [(T, ["reduce_cell"]), (L, ["reduce_cell"])],
    "C19": [("xfab/parameters.py", ["addpar", "get_variable_values", "get_variable_stepsizes", "set_varylist", "set_variable_values", "set_parameters",
                                    "update_yourself", "update_other", "saveparameters", "loadparameters", "dumbtypecheck", "fromstringlist", "tostringlist"])],
    "C20": [("xfab/checks.py", ["_check_rotation_matrix", "_check_euler_angles", "_check_ubi_matrix", "activated", "__init__"])],
}


def function_lines(path, names):
    """line numbers (1-based) of executable code inside the named functions, docstrings excluded"""
    src = open(os.path.join(REPO, path)).read()
    tree = ast.parse(src)
    keep = set()
    for node in ast.walk(tree):
        if isinstance(node, (ast.FunctionDef,)) and node.name in names:
            body = node.body
            start = body[0].lineno
            if isinstance(body[0], ast.Expr) and isinstance(getattr(body[0], "value", None), ast.Constant) and isinstance(body[0].value.value, str):
                start = body[0].end_lineno + 1
            for ln in range(start, node.end_lineno + 1):
                keep.add(ln)
    lines = src.split("\n")
    out = []
    for ln in sorted(keep):
        text = lines[ln - 1]
        code = text.split("#")[0]
        if code.strip() and not code.strip().startswith(("print", "logger", "logging", '"""', "'''", "raise", "assert")):
            out.append(ln)
    return out


def mutations_of(code):
    """list of (description, new_code) for one source line (comment already stripped)"""
    out = []

    def sub_at(m, repl, what):
        out.append((what, code[:m.start()] + repl + code[m.end():]))
    # binary + / -
    for m in re.finditer(r"(?<=[\w\)\]])(\s*)([+-])(\s*)(?=[\w\(])", code):
        pre = code[:m.start()]
        if re.search(r"\d[eE]$", pre):           # exponent of a float literal
            continue
        op = m.group(2)
        if code[m.end():m.end() + 1] == "=" or pre.endswith(("=", "(", ",")):
            continue
        sub_at(m, m.group(1) + ("-" if op == "+" else "+") + m.group(3), "%s -> %s" % (op, "-" if op == "+" else "+"))
    # augmented assignment
    for m in re.finditer(r"([+-])=", code):
        sub_at(m, ("-" if m.group(1) == "+" else "+") + "=", "augmented %s=" % m.group(1))
    # comparisons
    for m in re.finditer(r"(<=|>=|==|!=|(?<![<>=!-])<(?![=<])|(?<![<>=!-])>(?![=>]))", code):
        op = m.group(1)
        new = {"<=": "<", ">=": ">", "<": "<=", ">": ">=", "==": "!=", "!=": "=="}[op]
        sub_at(m, new, "%s -> %s" % (op, new))
    # index shifts
    for m in re.finditer(r"(?<=[\[,])(\s*)([012])(\s*)(?=[\],])", code):
        k = int(m.group(2))
        sub_at(m, m.group(1) + str((k + 1) % 3) + m.group(3), "index %d -> %d" % (k, (k + 1) % 3))
    # sin / cos
    for m in re.finditer(r"\b(np?|math)\.(sin|cos)\(", code):
        other = "cos" if m.group(2) == "sin" else "sin"
        sub_at(m, "%s.%s(" % (m.group(1), other), "%s -> %s" % (m.group(2), other))
    # numeric literals
    for m in re.finditer(r"(?<![\w\.\[])(\d+\.?\d*(?:[eE][+-]?\d+)?)(?![\w\.\]])", code):
        txt = m.group(1)
        try:
            val = float(txt)
        except ValueError:
            continue
        if "." in txt or "e" in txt.lower():
            new = repr(val * 10.0) if val != 0 else "1.0"
            sub_at(m, new, "literal %s -> %s" % (txt, new))
            if 0 < val < 1:
                new = repr(val / 100.0)
                sub_at(m, new, "literal %s -> %s" % (txt, new))
        else:
            new = str(int(val) + 1)
            sub_at(m, new, "literal %s -> %s" % (txt, new))
    # slice bounds (fixed-column readers)
    for m in re.finditer(r"\[(\d+):(\d+)\]", code):
        a, b = int(m.group(1)), int(m.group(2))
        sub_at(m, "[%d:%d]" % (a + 1, b), "slice start +1")
        sub_at(m, "[%d:%d]" % (a, b - 1), "slice end -1")
    # transposes
    for m in re.finditer(r"\b(np?)\.transpose\(", code):
        depth, i = 1, m.end()
        while i < len(code) and depth:
            depth += code[i] == "("
            depth -= code[i] == ")"
            i += 1
        if depth == 0:
            out.append(("transpose removed", code[:m.start()] + "(" + code[m.end():i - 1] + ")" + code[i:]))
    for m in re.finditer(r"\.T\b", code):
        sub_at(m, "", ".T removed")
    # dot(a, b) -> dot(b, a) for simple arguments
    for m in re.finditer(r"\b(np?)\.dot\(\s*([\w\.\[\]]+)\s*,\s*([\w\.\[\]]+)\s*\)", code):
        sub_at(m, "%s.dot(%s, %s)" % (m.group(1), m.group(3), m.group(2)), "dot arguments swapped")
    # abs removed
    for m in re.finditer(r"(?<![\w\.])(abs|n\.abs|np\.abs|n\.absolute)\(", code):
        sub_at(m, "(", "abs removed")
    # * <-> /
    for m in re.finditer(r"(?<=[\w\)\]])(\s*)(/)(\s*)(?=[\w\(])", code):
        if code[m.end():m.end() + 1] == "/" or code[m.start() - 1:m.start()] == "/":
            continue
        sub_at(m, m.group(1) + "*" + m.group(3), "/ -> *")
    # and/or, True/False
    for m in re.finditer(r"\b(and|or)\b", code):
        sub_at(m, "or" if m.group(1) == "and" else "and", "%s swapped" % m.group(1))
    for m in re.finditer(r"\b(True|False)\b", code):
        sub_at(m, "False" if m.group(1) == "True" else "True", "%s flipped" % m.group(1))
    return out


def all_mutants(pid):
    res = []
    for path, names in ANCHORS[pid]:
        src_lines = open(os.path.join(REPO, path)).read().split("\n")
        for ln in function_lines(path, names):
            text = src_lines[ln - 1]
            code, sep, comment = text.partition("#")
            for what, new in mutations_of(code):
                if new != code:
                    res.append({"pid": pid, "file": path, "line": ln, "what": what, "old": text, "new": new + sep + comment})
    return res


def data_mutants(pid, rng, n):
    """one-entry edits of the space-group tables (sglib.py) and of the name dictionary (sg.py): the kind of slip that happens
    while a neighbouring entry is being corrected.  C04 owns rotations, translations and metadata, C05 the reflection conditions."""
    res = []
    if pid not in ("C04", "C05"):
        return res
    path = "xfab/sglib.py"
    lines = open(os.path.join(REPO, path)).read().split("\n")
    cand = []
    for i, text in enumerate(lines, start=1):
        t = text.strip()
        if pid == "C04":
            if re.match(r"^\[\[-?\d,-?\d,-?\d\],\[-?\d,-?\d,-?\d\],\[-?\d,-?\d,-?\d\]\],?$", t):
                cand.append((i, "rot"))
            elif re.match(r"^\[-?\d\.\d+,-?\d\.\d+,-?\d\.\d+\],?$", t):
                cand.append((i, "trans"))
            elif re.match(r"^self\.(nsymop|nuniq) = \d+$", t):
                cand.append((i, "count"))
            elif re.match(r"^self\.Laue = ", t):
                cand.append((i, "laue"))
        else:
            if "self.syscond = [" in t or re.match(r"^\d+(, \d+)+,?\]?$", t):
                cand.append((i, "syscond"))
    rng.shuffle(cand)
    for (ln, kind) in cand:
        text = lines[ln - 1]
        new = None
        if kind == "rot":
            pos = [m for m in re.finditer(r"-?\d", text)]
            m = rng.choice(pos)
            v = int(m.group(0))
            nv = {0: rng.choice([1, -1]), 1: rng.choice([0, -1]), -1: rng.choice([0, 1])}[v]
            new = text[:m.start()] + str(nv) + text[m.end():]
        elif kind == "trans":
            pos = [m for m in re.finditer(r"-?\d\.\d+", text)]
            m = rng.choice(pos)
            alt = [x for x in ("0.000000", "0.500000", "0.250000", "0.750000", "0.333333", "0.666667") if x != m.group(0)]
            new = text[:m.start()] + rng.choice(alt) + text[m.end():]
        elif kind == "count":
            m = re.search(r"\d+$", text)
            new = text[:m.start()] + str(int(m.group(0)) * 2 if rng.random() < 0.5 else max(1, int(m.group(0)) // 2))
        elif kind == "laue":
            m = re.search(r'"([^"]+)"', text) or re.search(r"'([^']+)'", text)
            alt = [x for x in ("-1", "2/m", "mmm", "4/m", "4/mmm", "-3", "-3m1", "-31m", "6/m", "6/mmm", "m-3", "m-3m") if x != m.group(1)]
            new = text[:m.start(1)] + rng.choice(alt) + text[m.end(1):]
        elif kind == "syscond":
            pos = [m for m in re.finditer(r"(?<![\w\.])\d+(?![\w\.])", text)]
            if not pos:
                continue
            m = rng.choice(pos)
            v = int(m.group(0))
            nv = {0: rng.choice([2, 4]), 2: rng.choice([0, 4]), 3: 0, 4: rng.choice([0, 2]), 6: rng.choice([0, 3, 2])}.get(v, 0)
            new = text[:m.start()] + str(nv) + text[m.end():]
        if new and new != text:
            res.append({"pid": pid, "file": path, "line": ln, "what": "table %s entry" % kind, "old": text, "new": new})
        if len(res) >= n:
            break
    if pid == "C04":
        path = "xfab/sg.py"
        lines = open(os.path.join(REPO, path)).read().split("\n")
        cand = [i for i, t in enumerate(lines, start=1) if re.search(r"['\"]Sg\d+['\"]", t)]
        rng.shuffle(cand)
        for ln in cand[: max(2, n // 5)]:
            text = lines[ln - 1]
            m = re.search(r"Sg(\d+)", text)
            k = int(m.group(1))
            new = text[:m.start(1)] + str(k + 1 if k < 230 else 229) + text[m.end(1):]
            res.append({"pid": pid, "file": path, "line": ln, "what": "dictionary entry", "old": text, "new": new})
    return res


def run_mutant(m, idx):
    d = tempfile.mkdtemp(prefix="xfab-am-")
    try:
        shutil.copytree(os.path.join(REPO, "xfab"), os.path.join(d, "xfab"))
        shutil.copytree(os.path.join(REPO, "test"), os.path.join(d, "test"))
        for f in ("setup.py", "setup.cfg"):
            if os.path.exists(os.path.join(REPO, f)):
                shutil.copy(os.path.join(REPO, f), os.path.join(d, f))
        p = os.path.join(d, m["file"])
        lines = open(p).read().split("\n")
        if lines[m["line"] - 1] != m["old"]:
            return dict(m, status="stale")
        lines[m["line"] - 1] = m["new"]
        open(p, "w").write("\n".join(lines))
        env = dict(os.environ, PYTHONPATH=d, PYTHONDONTWRITEBYTECODE="1")
        c = subprocess.run(["/venv/bin/python", "-c", "import xfab.tools, xfab.laue, xfab.structure, xfab.detector, xfab.symmetry, xfab.parameters, xfab.sg; "
                            "import xfab, sys; sys.exit(0 if xfab.__file__.startswith(%r) else 3)" % d], cwd=d, env=env,
                           stdout=subprocess.PIPE, stderr=subprocess.STDOUT)
        if c.returncode != 0:
            return dict(m, status="does-not-import")
        t = subprocess.run(["/venv/bin/python", "-m", "pytest", "-q", "-x", "-p", "no:cacheprovider", "--timeout=300", "test"], cwd=d, env=env,
                           stdout=subprocess.PIPE, stderr=subprocess.STDOUT)
        tail = t.stdout.decode("utf-8", "replace").strip().splitlines()[-1:] or [""]
        if t.returncode != 0 or "73 passed" not in tail[0]:
            return dict(m, status="killed-by-tests")
        wk = os.path.join(d, "work")
        ev = os.path.join(d, "evidence")
        os.makedirs(wk)
        os.makedirs(ev)
        e = dict(os.environ, VERIF_REPO=d, VERIF_WORK=wk, VERIF_EVIDENCE=ev)
        try:
            q = subprocess.run([os.path.join(VERIF, "check"), m["pid"], "--tier", "quick"], cwd=VERIF, env=e,
                               stdout=subprocess.PIPE, stderr=subprocess.STDOUT, timeout=1500)
            txt = q.stdout.decode("utf-8", "replace")
            rc = q.returncode
        except subprocess.TimeoutExpired:
            txt, rc = "", 99
        first = next((l[:300] for l in txt.splitlines() if l.startswith(("VIOLATION", "MACHINERY"))), "")
        status = {0: "SURVIVED", 1: "caught"}.get(rc, "caught-as-machinery-failure(rc=%d)" % rc)
        return dict(m, status=status, first=first)
    finally:
        shutil.rmtree(d, ignore_errors=True)


def main():
    args = sys.argv[1:]
    per, jobs, seed = 30, 5, 1
    pids = []
    while args:
        a = args.pop(0)
        if a == "-n":
            per = int(args.pop(0))
        elif a == "-j":
            jobs = int(args.pop(0))
        elif a == "--seed":
            seed = int(args.pop(0))
        else:
            pids.append(a)
    pids = pids or sorted(ANCHORS)
    outdir = os.path.join(VERIF, ".work", "automutate")
    os.makedirs(outdir, exist_ok=True)
    todo = []
    for pid in pids:
        ms = all_mutants(pid)
        rng = random.Random(seed * 1000 + int(pid[1:]))
        rng.shuffle(ms)
        # spread over lines: at most 2 mutants per source line
        seen, pick = {}, []
        for m in ms:
            k = (m["file"], m["line"])
            if seen.get(k, 0) >= 2:
                continue
            seen[k] = seen.get(k, 0) + 1
            pick.append(m)
            if len(pick) >= per:
                break
        dm = data_mutants(pid, rng, per)
        print("%s: %d candidate mutants, %d selected, %d table edits" % (pid, len(ms), len(pick), len(dm)), flush=True)
        todo += pick + dm
    results = []
    with ThreadPoolExecutor(max_workers=jobs) as ex:
        for r in ex.map(lambda im: run_mutant(im[1], im[0]), enumerate(todo)):
            results.append(r)
            print("%s %-28s %s:%d  %s   | %s" % (r["pid"], r["status"], r["file"], r["line"], r["what"], r["new"].strip()[:90]), flush=True)
    summary = {}
    for r in results:
        s = summary.setdefault(r["pid"], {})
        s[r["status"]] = s.get(r["status"], 0) + 1
    for pid in pids:
        surv = [r for r in results if r["pid"] == pid and r["status"] == "SURVIVED"]
        json.dump(surv, open(os.path.join(outdir, "%s.survivors.json" % pid), "w"), indent=1)
    json.dump({"seed": seed, "per_property": per, "summary": summary, "results": results}, open(os.path.join(outdir, "campaign-seed%d.json" % seed), "w"), indent=1)
    print(json.dumps(summary, indent=1))


if __name__ == "__main__":
    main()
